/-
Meta-lemma used by the C17 (order-independence) obligations of govc.

The verifier proves, per loop, that the outcome of visiting two *adjacent* list entries does
not depend on their order (from an arbitrary loop state, i.e. after an arbitrary prefix and
before an arbitrary suffix).  Lifting this to arbitrary permutations is the statement below:
a function of a list that is invariant under every adjacent transposition is invariant under
every permutation.  Checked by Lean 4 (core library only).
-/

theorem adjacent_swaps_give_permutation_invariance {α β : Type} (f : List α → β)
    (h : ∀ (l₁ : List α) (a b : α) (l₂ : List α),
      f (l₁ ++ a :: b :: l₂) = f (l₁ ++ b :: a :: l₂))
    {l l' : List α} (hp : l.Perm l') : f l = f l' := by
  have key : ∀ p : List α, f (p ++ l) = f (p ++ l') := by
    induction hp with
    | nil => intro p; rfl
    | cons x _ ih =>
      intro p
      have := ih (p ++ [x])
      simpa [List.append_assoc] using this
    | swap x y l => intro p; exact h p y x l
    | trans _ _ ih1 ih2 => intro p; exact (ih1 p).trans (ih2 p)
  simpa using key []

/-- The same for a status computed by folding a loop body over the list from a start state:
    if running the body on `a` then `b` equals running it on `b` then `a` from every state,
    the fold does not depend on the order of the list. -/
theorem fold_commute_gives_permutation_invariance {σ α : Type} (body : σ → α → σ)
    (h : ∀ (s : σ) (a b : α), body (body s a) b = body (body s b) a)
    (s : σ) {l l' : List α} (hp : l.Perm l') : l.foldl body s = l'.foldl body s := by
  induction hp generalizing s with
  | nil => rfl
  | cons x _ ih => simp [List.foldl, ih]
  | swap x y l => simp [List.foldl, h]
  | trans _ _ ih1 ih2 => exact (ih1 s).trans (ih2 s)
