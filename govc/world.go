package main

import (
	"strconv"
	"sync"
	"fmt"
	"go/ast"
	"go/parser"
	"go/token"
	"go/types"
	"os"
	"path/filepath"
	"sort"
	"strings"
	"time"

	"golang.org/x/tools/go/packages"
	"golang.org/x/tools/go/ssa"
	"golang.org/x/tools/go/ssa/ssautil"
)

type World struct {
	roCache map[*types.Var][]string
	Prog       *ssa.Program
	Pkgs       []*packages.Package
	Fset       *token.FileSet
	CS         *ContractSet
	ModPath    string
	RepoDir    string // module dir (/repo/v3)
	VerifDir   string
	funcIDs    map[*ssa.Function]int
	Traces     []*Trace
	GhostSorts map[string]ghostInfo
	errors     []string
	recLocals  map[string][]localVar // locals of functions under contract as recorded by `govc ledger`
	dropped    map[string]bool // assumption clauses dropped because they no longer fit the source (softFail)
	droppedMu  sync.Mutex
	allTypes   map[string]*types.Package // path -> package (all reachable)
	byName     map[string][]*types.Package
	axiomsDone map[*Unit]map[string]bool
	allFns     map[*ssa.Function]bool
	lints      []*LintInfo
	reach      map[*ssa.Function]bool
	timeCache  map[*ssa.Global]time.Time
	globalFacts map[*types.Var]globalFact
	structCache map[string]string
	globalConsts map[*types.Var]globalFact
	firedTags map[*ssa.Function]map[string]bool
}

type Trace struct {
	Kind, Key, Pkg, Tag string
}

type ghostInfo struct{ typ types.Type }

func (g ghostInfo) sort(u *Unit) string { return u.D.SortOf(g.typ) }

type traceInfo struct {
	tr      *Trace
	hasRecv bool
}

func (w *World) fail(format string, a ...any) {
	w.errors = append(w.errors, fmt.Sprintf(format, a...))
}

func LoadWorld(repoDir, verifDir string, patterns ...string) (*World, error) {
	if len(patterns) == 0 {
		patterns = []string{"./..."}
	}
	cfg := &packages.Config{
		Mode: packages.NeedName | packages.NeedFiles | packages.NeedCompiledGoFiles | packages.NeedImports |
			packages.NeedTypes | packages.NeedTypesSizes | packages.NeedSyntax | packages.NeedTypesInfo | packages.NeedModule,
		Dir:        repoDir,
		BuildFlags: []string{"-tags=verif"},
		Env:        append(os.Environ(), "GOFLAGS=-mod=mod", "GOPROXY=off", "GOSUMDB=off", "GOTOOLCHAIN=local"),
	}
	pkgs, err := packages.Load(cfg, patterns...)
	if err != nil {
		return nil, err
	}
	var errs []string
	packages.Visit(pkgs, nil, func(p *packages.Package) {
		for _, e := range p.Errors {
			errs = append(errs, e.Error())
		}
	})
	if len(errs) > 0 {
		return nil, fmt.Errorf("package errors (the tree does not compile):\n%s", strings.Join(errs, "\n"))
	}
	prog, _ := ssautil.Packages(pkgs, ssa.InstantiateGenerics|ssa.GlobalDebug)
	prog.Build()
	w := &World{Prog: prog, Pkgs: pkgs, Fset: prog.Fset, RepoDir: repoDir, VerifDir: verifDir, funcIDs: map[*ssa.Function]int{}, dropped: map[string]bool{},
		GhostSorts: map[string]ghostInfo{}, allTypes: map[string]*types.Package{}, byName: map[string][]*types.Package{}, axiomsDone: map[*Unit]map[string]bool{}}
	for _, p := range pkgs {
		if p.Module != nil {
			w.ModPath = p.Module.Path
			break
		}
	}
	var visit func(p *types.Package)
	visit = func(p *types.Package) {
		if w.allTypes[p.Path()] != nil {
			return
		}
		w.allTypes[p.Path()] = p
		w.byName[p.Name()] = append(w.byName[p.Name()], p)
		for _, q := range p.Imports() {
			visit(q)
		}
	}
	for _, p := range pkgs {
		visit(p.Types)
	}
	w.CS = NewContractSet()
	if err := w.CS.LoadRepoContracts(repoDir, w.ModPath); err != nil {
		return nil, err
	}
	for _, f := range []string{"prelude.contracts", "external.contracts"} {
		p := verifDir + "/spec/" + f
		if _, err := os.Stat(p); err == nil {
			if err := w.CS.LoadContractFile(p, ""); err != nil {
				return nil, err
			}
		}
	}
	w.GhostSorts["clock"] = ghostInfo{tInt}
	w.GhostSorts["panicked"] = ghostInfo{tBool}
	for _, t := range w.CS.TraceDecls {
		w.addTrace(t)
	}
	return w, nil
}

func (w *World) pkgByPath(path string) *types.Package { return w.allTypes[path] }

func (w *World) ssaPkg(path string) *ssa.Package {
	if p := w.allTypes[path]; p != nil {
		return w.Prog.Package(p)
	}
	return nil
}

func (w *World) inModule(fn *ssa.Function) bool {
	if fn.Pkg == nil {
		if fn.Parent() != nil {
			return w.inModule(fn.Parent())
		}
		// methods of instantiated/wrapper functions
		if fn.Object() != nil && fn.Object().Pkg() != nil {
			return strings.HasPrefix(fn.Object().Pkg().Path(), w.ModPath)
		}
		return false
	}
	return strings.HasPrefix(fn.Pkg.Pkg.Path(), w.ModPath)
}

func (w *World) funcID(fn *ssa.Function) int {
	if id, ok := w.funcIDs[fn]; ok {
		return id
	}
	id := 1000000 + len(w.funcIDs)
	w.funcIDs[fn] = id
	return id
}

// funcKey is the contract key of a function: Name, (*T).M, (T).M, Parent$1.
func funcKey(fn *ssa.Function) string {
	if strings.HasPrefix(fn.Name(), "init#") && fn.Prog != nil {
		return "init@" + filepath.Base(fn.Prog.Fset.Position(fn.Pos()).Filename)
	}
	if fn.Parent() != nil {
		return funcKey(fn.Parent()) + strings.TrimPrefix(fn.Name(), fn.Parent().Name())
	}
	if recv := fn.Signature.Recv(); recv != nil {
		t := recv.Type()
		star := ""
		if pt, ok := t.(*types.Pointer); ok {
			t = pt.Elem()
			star = "*"
		}
		name := t.String()
		if n, ok := t.(*types.Named); ok {
			name = n.Obj().Name()
		}
		return "(" + star + name + ")." + fn.Name()
	}
	return fn.Name()
}

func fnPkgPath(fn *ssa.Function) string {
	if fn.Pkg != nil {
		return fn.Pkg.Pkg.Path()
	}
	if fn.Parent() != nil {
		return fnPkgPath(fn.Parent())
	}
	if fn.Object() != nil && fn.Object().Pkg() != nil {
		return fn.Object().Pkg().Path()
	}
	return ""
}

func (w *World) funcContract(fn *ssa.Function) *Contract {
	if fn == nil {
		return nil
	}
	c := w.CS.ByKey[fnPkgPath(fn)+"::"+funcKey(fn)]
	if c != nil && c.Kind == "func" {
		return c
	}
	return nil
}

func (w *World) externContract(fn *ssa.Function) *Contract {
	if fn == nil {
		return nil
	}
	if c := w.CS.ByKey["::"+fn.String()]; c != nil {
		return c
	}
	return nil
}

func (w *World) interfaceContract(t types.Type, m *types.Func) *Contract {
	t = types.Unalias(t)
	if n, ok := t.(*types.Named); ok {
		pkg := ""
		if n.Obj().Pkg() != nil {
			pkg = n.Obj().Pkg().Path()
		}
		if c := w.CS.ByKey[pkg+"::"+n.Obj().Name()+"."+m.Name()]; c != nil && c.Kind == "interface" {
			return c
		}
		if c := w.CS.ByKey["::"+n.Obj().Name()+"."+m.Name()]; c != nil {
			return c
		}
	}
	return nil
}

func (w *World) fieldContractByName(pkg, typ, field string) *Contract {
	if c := w.CS.ByKey[pkg+"::"+typ+"."+field]; c != nil && c.Kind == "field" {
		return c
	}
	return nil
}

func (w *World) fieldContract(fld *types.Var) *Contract {
	// find the struct owning this field among contracts of kind field
	for _, c := range w.CS.Contracts {
		if c.Kind != "field" {
			continue
		}
		i := strings.LastIndex(c.Key, ".")
		if i < 0 || c.Key[i+1:] != fld.Name() {
			continue
		}
		p := w.pkgByPath(c.Pkg)
		if p == nil {
			continue
		}
		tn, ok := p.Scope().Lookup(c.Key[:i]).(*types.TypeName)
		if !ok {
			continue
		}
		st, ok := tn.Type().Underlying().(*types.Struct)
		if !ok {
			continue
		}
		for j := 0; j < st.NumFields(); j++ {
			if st.Field(j) == fld {
				return c
			}
		}
	}
	return nil
}

// findFunction resolves a contract to its ssa function.
func (w *World) findFunction(c *Contract) *ssa.Function {
	sp := w.ssaPkg(c.Pkg)
	if sp == nil {
		return nil
	}
	key := c.Key
	if strings.HasPrefix(key, "(") {
		i := strings.Index(key, ").")
		if i < 0 {
			return nil
		}
		tname := strings.TrimPrefix(key[1:i], "*")
		ptr := strings.HasPrefix(key[1:i], "*")
		rest := key[i+2:]
		mname := rest
		anon := ""
		if j := strings.Index(rest, "$"); j >= 0 {
			mname, anon = rest[:j], rest[j:]
		}
		tn, ok := sp.Pkg.Scope().Lookup(tname).(*types.TypeName)
		if !ok {
			return nil
		}
		var recv types.Type = tn.Type()
		if ptr {
			recv = types.NewPointer(recv)
		}
		sel := w.Prog.MethodSets.MethodSet(recv).Lookup(sp.Pkg, mname)
		if sel == nil {
			return nil
		}
		fn := w.Prog.MethodValue(sel)
		if fn == nil {
			return nil
		}
		// reject promoted/wrapper methods: the declared receiver must match
		if fn.Synthetic != "" {
			return nil
		}
		if anon != "" {
			return findAnon(fn, mname+anon)
		}
		return fn
	}
	if strings.HasPrefix(key, "init@") {
		// a declared init function, identified by the file it lives in
		file := strings.TrimPrefix(key, "init@")
		for name, m := range sp.Members {
			if fn, ok := m.(*ssa.Function); ok && strings.HasPrefix(name, "init#") {
				if filepath.Base(w.Fset.Position(fn.Pos()).Filename) == file {
					return fn
				}
			}
		}
		return nil
	}
	name := key
	anon := ""
	if j := strings.Index(key, "$"); j >= 0 {
		name, anon = key[:j], key[j:]
	}
	fn := sp.Func(name)
	if fn != nil && anon != "" {
		return findAnon(fn, name+anon)
	}
	return fn
}

func findAnon(fn *ssa.Function, name string) *ssa.Function {
	for _, a := range fn.AnonFuncs {
		if a.Name() == name {
			return a
		}
		if r := findAnon(a, name); r != nil {
			return r
		}
	}
	return nil
}

// findPackage resolves a package name as seen from `from`; when several imported
// packages share the name (imports are per file) the one declaring `member` wins.
func (w *World) findPackage(from *types.Package, name, member string) *types.Package {
	if from != nil && from.Name() == name {
		return from
	}
	has := func(p *types.Package) bool { return member == "" || p.Scope().Lookup(member) != nil }
	var first *types.Package
	if from != nil {
		for _, p := range from.Imports() {
			if p.Name() == name {
				if has(p) {
					return p
				}
				if first == nil {
					first = p
				}
			}
		}
	}
	if first != nil {
		return first
	}
	ps := append([]*types.Package{}, w.byName[name]...)
	if len(ps) == 0 {
		return nil
	}
	// prefer module packages, then shortest path
	sort.Slice(ps, func(i, j int) bool {
		mi, mj := strings.HasPrefix(ps[i].Path(), w.ModPath), strings.HasPrefix(ps[j].Path(), w.ModPath)
		if mi != mj {
			return mi
		}
		if len(ps[i].Path()) != len(ps[j].Path()) {
			return len(ps[i].Path()) < len(ps[j].Path())
		}
		return ps[i].Path() < ps[j].Path()
	})
	for _, p := range ps {
		if has(p) {
			return p
		}
	}
	return ps[0]
}

func (w *World) specFunc(pkg *types.Package, name string) *SpecFunc {
	if pkg != nil {
		if sp := w.CS.Specs[pkg.Path()+"::"+name]; sp != nil {
			return sp
		}
	}
	return w.CS.Specs["::"+name]
}

// specAxioms asserts the axioms that mention an uninterpreted spec function.
func (w *World) specAxioms(u *Unit, sp *SpecFunc) {
	done := w.axiomsDone[u]
	if done == nil {
		done = map[string]bool{}
		w.axiomsDone[u] = done
	}
	for _, ax := range w.CS.Lemmas {
		if !ax.Axiom || ax.Inst != "" || done[ax.Name] || !strings.Contains(ax.Text, sp.Name+"(") {
			continue
		}
		done[ax.Name] = true
		pkg := w.pkgByPath(ax.Pkg)
		env := &SpecEnv{u: u, pkg: pkg, vars: map[string]Val{}, heap: u.axiomHeap(), oldHeap: u.axiomHeap()}
		t, err := env.evalBool(ax.Text)
		if err != nil {
			w.fail("%s:%d: axiom %s: %v", ax.File, ax.Line, ax.Name, err)
			continue
		}
		u.D.axiom(t)
		u.trusted["axiom "+ax.Name+": "+ax.Text] = true
	}
}

func (u *Unit) axiomHeap() *Heap {
	if u.axHeap == nil {
		u.axHeap = u.newHeap(&Link{kind: "entry"})
	}
	return u.axHeap
}

// ---------- type resolution for spec signatures ----------

func (w *World) resolveTypeText(pkg *types.Package, text string) types.Type {
	x, err := parser.ParseExpr(text)
	if err != nil {
		sfail("bad type %q", text)
	}
	return w.resolveType(pkg, x)
}

func (w *World) resolveType(pkg *types.Package, x ast.Expr) types.Type {
	t := w.tryResolveType(pkg, x)
	if t == nil {
		sfail("cannot resolve type %s", types.ExprString(x))
	}
	return t
}

func (w *World) tryResolveType(pkg *types.Package, x ast.Expr) types.Type {
	switch n := x.(type) {
	case *ast.Ident:
		if n.Name == "funcval" {
			// any function value (spec heads cannot spell function types)
			return types.NewSignatureType(nil, nil, nil, nil, nil, false)
		}
		if pkg != nil {
			if tn, ok := pkg.Scope().Lookup(n.Name).(*types.TypeName); ok {
				return tn.Type()
			}
		}
		if tn, ok := types.Universe.Lookup(n.Name).(*types.TypeName); ok {
			return tn.Type()
		}
	case *ast.SelectorExpr:
		if id, ok := n.X.(*ast.Ident); ok {
			if p := w.findPackage(pkg, id.Name, n.Sel.Name); p != nil {
				if tn, ok := p.Scope().Lookup(n.Sel.Name).(*types.TypeName); ok {
					return tn.Type()
				}
			}
		}
	case *ast.StarExpr:
		if t := w.tryResolveType(pkg, n.X); t != nil {
			return types.NewPointer(t)
		}
	case *ast.ArrayType:
		if n.Len == nil {
			if t := w.tryResolveType(pkg, n.Elt); t != nil {
				return types.NewSlice(t)
			}
		} else if bl, ok := n.Len.(*ast.BasicLit); ok {
			if t := w.tryResolveType(pkg, n.Elt); t != nil {
				k, _ := strconv.Atoi(bl.Value)
				return types.NewArray(t, int64(k))
			}
		}
	case *ast.MapType:
		k, v := w.tryResolveType(pkg, n.Key), w.tryResolveType(pkg, n.Value)
		if k != nil && v != nil {
			return types.NewMap(k, v)
		}
	case *ast.InterfaceType:
		if n.Methods == nil || len(n.Methods.List) == 0 {
			return types.NewInterfaceType(nil, nil)
		}
	case *ast.ParenExpr:
		return w.tryResolveType(pkg, n.X)
	}
	return nil
}

// ---------- callee environments, pure applications, traces ----------

func (w *World) calleeEnv(u *Unit, c *Contract, callee *ssa.Function, sig *types.Signature, args []Val) *SpecEnv {
	var pkg *types.Package
	if c.Pkg != "" {
		pkg = w.pkgByPath(c.Pkg)
	} else if callee != nil && callee.Object() != nil {
		pkg = callee.Object().Pkg()
	}
	env := &SpecEnv{u: u, pkg: pkg, vars: map[string]Val{}}
	i := 0
	hasRecv := sig.Recv() != nil
	if hasRecv && len(args) > 0 {
		env.vars["this"] = args[0]
		if n := sig.Recv().Name(); n != "" && n != "_" {
			env.vars[n] = args[0]
		}
		if callee != nil && len(callee.Params) > 0 {
			env.vars[callee.Params[0].Name()] = args[0]
		}
		i = 1
	} else if c.Kind == "interface" && len(args) > 0 {
		env.vars["this"] = args[0]
		i = 1
	}
	for j := 0; j < sig.Params().Len() && i+j < len(args); j++ {
		a := args[i+j]
		a.Typ = sig.Params().At(j).Type()
		if n := sig.Params().At(j).Name(); n != "" && n != "_" {
			env.vars[n] = a
		}
		env.vars[fmt.Sprintf("arg%d", j)] = a
	}
	// parameters renamed since the contract was written keep answering to their old names
	if callee != nil && callee.Blocks != nil {
		if w.recLocals == nil {
			w.localAlias(callee, "")
		}
		for _, lv := range w.recLocals[callee.String()] {
			if _, known := env.vars[lv.Name]; known || !strings.HasPrefix(lv.Type, "param ") {
				continue
			}
			if alias := w.localAlias(callee, lv.Name); alias != "" {
				if v, ok := env.vars[alias]; ok {
					env.vars[lv.Name] = v
				}
			}
		}
	}
	return env
}

func (w *World) pureApp(u *Unit, c *Contract, callee *ssa.Function, sig *types.Signature, args []Val, heap *Heap) Val {
	return w.pureAppN(u, c, callee, sig, args, heap, -1)
}

func (w *World) pureAppN(u *Unit, c *Contract, callee *ssa.Function, sig *types.Signature, args []Val, heap *Heap, idx int) Val {
	name := "pure:" + c.Pkg + "." + c.Key
	if callee != nil {
		name = "pure:" + callee.String()
	}
	if idx >= 0 {
		name += fmt.Sprintf("#%d", idx)
	}
	var sorts, ts []string
	for _, a := range args {
		if a.Loc != nil && a.T == "" {
			a.T = u.fresh("locarg", "Int")
		}
		sorts = append(sorts, u.D.SortOf(a.Typ))
		ts = append(ts, a.T)
	}
	ri := idx
	if ri < 0 {
		ri = 0
	}
	rt := sig.Results().At(ri).Type()
	if !c.Flags["heapfree"] {
		u.scalar("$hv", "Int")
		sorts = append(sorts, "Int")
		ts = append(ts, u.hget(heap, "$hv"))
	}
	fn := u.D.Fun(name, sorts, u.D.SortOf(rt))
	return Val{T: app(fn, ts...), Typ: rt}
}

func (w *World) addTrace(t *Trace) {
	w.Traces = append(w.Traces, t)
	// ghost sorts from the target
	var recvT, retT, ret1T, argT, arg2T types.Type
	p := w.pkgByPath(t.Pkg)
	if p != nil || t.Kind == "extern" {
		switch t.Kind {
		case "interface":
			i := strings.LastIndex(t.Key, ".")
			if tn, ok := p.Scope().Lookup(t.Key[:i]).(*types.TypeName); ok {
				recvT = tn.Type()
				if it, ok := tn.Type().Underlying().(*types.Interface); ok {
					for j := 0; j < it.NumMethods(); j++ {
						if it.Method(j).Name() == t.Key[i+1:] {
							msig := it.Method(j).Type().(*types.Signature)
							r := msig.Results()
							if r.Len() > 0 {
								retT = r.At(0).Type()
							}
							if r.Len() > 1 {
								ret1T = r.At(1).Type()
							}
							if msig.Params().Len() > 0 {
								argT = msig.Params().At(0).Type()
							}
							if msig.Params().Len() > 1 {
								arg2T = msig.Params().At(1).Type()
							}
						}
					}
				}
			}
		case "field":
			i := strings.LastIndex(t.Key, ".")
			if tn, ok := p.Scope().Lookup(t.Key[:i]).(*types.TypeName); ok {
				if st, ok := tn.Type().Underlying().(*types.Struct); ok {
					for j := 0; j < st.NumFields(); j++ {
						if st.Field(j).Name() == t.Key[i+1:] {
							if sg, ok := st.Field(j).Type().Underlying().(*types.Signature); ok && sg.Results().Len() > 0 {
								retT = sg.Results().At(0).Type()
							}
						}
					}
				}
			}
		case "extern":
			if sig := w.externSig(t.Key); sig != nil {
				if sig.Recv() != nil {
					recvT = sig.Recv().Type()
				}
				if sig.Params().Len() > 0 {
					argT = sig.Params().At(0).Type()
				}
				if sig.Results().Len() > 0 {
					retT = sig.Results().At(0).Type()
				}
				if sig.Results().Len() > 1 {
					ret1T = sig.Results().At(1).Type()
				}
			}
		case "func":
			c := &Contract{Kind: "func", Key: t.Key, Pkg: t.Pkg}
			if fn := w.findFunction(c); fn != nil {
				if len(fn.Params) > 0 {
					recvT = fn.Params[0].Type()
				}
				if fn.Signature.Params().Len() > 0 {
					argT = fn.Signature.Params().At(0).Type()
				}
				if fn.Signature.Params().Len() > 1 {
					arg2T = fn.Signature.Params().At(1).Type()
				}
				if fn.Signature.Results().Len() > 0 {
					retT = fn.Signature.Results().At(0).Type()
				}
				if fn.Signature.Results().Len() > 1 {
					ret1T = fn.Signature.Results().At(1).Type()
				}
			}
		}
	}
	w.GhostSorts["n"+t.Tag] = ghostInfo{tInt}
	w.GhostSorts["t"+t.Tag] = ghostInfo{tInt}
	if recvT != nil {
		w.GhostSorts["recv"+t.Tag] = ghostInfo{recvT}
	}
	if argT != nil {
		w.GhostSorts["arg"+t.Tag] = ghostInfo{argT}
	}
	// rseq/aseq/bseq<Tag>(j): receiver, first and second argument of the j-th traced call
	if recvT != nil {
		w.GhostSorts["rseq"+t.Tag] = ghostInfo{types.NewArray(recvT, 0)}
	}
	if argT != nil {
		w.GhostSorts["aseq"+t.Tag] = ghostInfo{types.NewArray(argT, 0)}
	}
	if arg2T != nil {
		w.GhostSorts["bseq"+t.Tag] = ghostInfo{types.NewArray(arg2T, 0)}
	}
	if ret1T != nil {
		// ret1<Tag>: second result of the last traced call (typically the error)
		w.GhostSorts["ret1"+t.Tag] = ghostInfo{ret1T}
	}
	if retT != nil {
		w.GhostSorts["ret"+t.Tag] = ghostInfo{retT}
		// seq<Tag>(j): result of the j-th traced call (1-based count)
		w.GhostSorts["seq"+t.Tag] = ghostInfo{types.NewArray(retT, 0)}
	}
}

func (w *World) traceFor(u *Unit, callee *ssa.Function, c *ssa.CallCommon, contract *Contract) *traceInfo {
	if contract == nil {
		return nil
	}
	for _, t := range w.Traces {
		if t.Kind == contract.Kind && t.Key == contract.Key && (t.Pkg == contract.Pkg || t.Kind == "extern") {
			return &traceInfo{tr: t, hasRecv: c.Signature().Recv() != nil || c.IsInvoke()}
		}
	}
	return nil
}

func (t *Trace) matches(w *World, callee *ssa.Function, c *ssa.CallCommon) bool {
	var contract *Contract
	if c.IsInvoke() {
		contract = w.interfaceContract(c.Value.Type(), c.Method)
	} else if callee != nil {
		contract = w.funcContract(callee)
	} else {
		// possibly a field call: conservatively match field traces
		return t.Kind == "field"
	}
	if contract == nil && callee != nil {
		contract = w.externContract(callee)
	}
	return contract != nil && t.Kind == contract.Kind && t.Key == contract.Key && (t.Pkg == contract.Pkg || t.Kind == "extern")
}

func (f *Frame) recordTrace(ti *traceInfo, st *state, args []Val, rs []Val) {
	if ti == nil {
		return
	}
	u := f.u
	tag := ti.tr.Tag
	u.scalar("$g.clock", "Int")
	u.scalar("$g.n"+tag, "Int")
	u.scalar("$g.t"+tag, "Int")
	clock := "(+ " + u.hget(st.heap, "$g.clock") + " 1)"
	u.hset(st.heap, "$g.clock", clock)
	n := "(+ " + u.hget(st.heap, "$g.n"+tag) + " 1)"
	u.hset(st.heap, "$g.n"+tag, n)
	u.hset(st.heap, "$g.t"+tag, u.hget(st.heap, "$g.clock"))
	if gi, ok := u.W.GhostSorts["recv"+tag]; ok && len(args) > 0 && args[0].T != "" && u.D.SortOf(args[0].Typ) == gi.sort(u) {
		u.scalar("$g.recv"+tag, gi.sort(u))
		u.hset(st.heap, "$g.recv"+tag, args[0].T)
	}
	if gi, ok := u.W.GhostSorts["arg"+tag]; ok {
		i := 0
		if ti.hasRecv {
			i = 1
		}
		if i < len(args) && args[i].T != "" && u.D.SortOf(args[i].Typ) == gi.sort(u) {
			u.scalar("$g.arg"+tag, gi.sort(u))
			u.hset(st.heap, "$g.arg"+tag, args[i].T)
		}
	}
	if si, ok := u.W.GhostSorts["rseq"+tag]; ok && len(args) > 0 && args[0].T != "" && ti.hasRecv {
		if at, ok := si.typ.(*types.Array); ok && u.D.SortOf(args[0].Typ) == u.D.SortOf(at.Elem()) {
			u.scalar("$g.rseq"+tag, si.sort(u))
			u.hset(st.heap, "$g.rseq"+tag, sto(u.hget(st.heap, "$g.rseq"+tag), u.hget(st.heap, "$g.n"+tag), args[0].T))
		}
	}
	for k, nm := range []string{"aseq", "bseq"} {
		si, ok := u.W.GhostSorts[nm+tag]
		if !ok {
			continue
		}
		i := k
		if ti.hasRecv {
			i = k + 1
		}
		if at, ok := si.typ.(*types.Array); ok && i < len(args) && args[i].T != "" && u.D.SortOf(args[i].Typ) == u.D.SortOf(at.Elem()) {
			u.scalar("$g."+nm+tag, si.sort(u))
			u.hset(st.heap, "$g."+nm+tag, sto(u.hget(st.heap, "$g."+nm+tag), u.hget(st.heap, "$g.n"+tag), args[i].T))
		}
	}
	if gi, ok := u.W.GhostSorts["ret1"+tag]; ok && len(rs) > 1 {
		u.scalar("$g.ret1"+tag, gi.sort(u))
		u.hset(st.heap, "$g.ret1"+tag, rs[1].T)
	}
	if gi, ok := u.W.GhostSorts["ret"+tag]; ok && len(rs) > 0 {
		u.scalar("$g.ret"+tag, gi.sort(u))
		u.hset(st.heap, "$g.ret"+tag, rs[0].T)
		si := u.W.GhostSorts["seq"+tag]
		u.scalar("$g.seq"+tag, si.sort(u))
		u.hset(st.heap, "$g.seq"+tag, sto(u.hget(st.heap, "$g.seq"+tag), u.hget(st.heap, "$g.n"+tag), rs[0].T))
	}
}

// implementsAxioms records that implements(·, iface) must be axiomatised for all known dynamic types.
func (w *World) implementsAxioms(u *Unit, iface types.Type, implFn string, iid int) {
	if u.D.implIfaces == nil {
		u.D.implIfaces = map[int]types.Type{}
	}
	u.D.implIfaces[iid] = iface
}

// externPanicPre: panicking preconditions of well-known externals (used by the safety sweep).
func externPanicPre(fn *ssa.Function, args []Val, u *Unit) string {
	return ""
}


// instAxioms instantiates "axiom N inst f: all(x, T, body)" at a ground application f(arg, ...):
// x := arg (the first argument). Non-linear facts are handed to the solver only at the terms
// that occur, never as quantified formulas.
func (w *World) instAxioms(e *SpecEnv, sp *SpecFunc, args []Val) {
	u := e.u
	if len(args) == 0 || strings.Contains(args[0].T, "?") {
		return
	}
	done := w.axiomsDone[u]
	if done == nil {
		done = map[string]bool{}
		w.axiomsDone[u] = done
	}
	for _, ax := range w.CS.Lemmas {
		if !ax.Axiom || ax.Inst != sp.Name {
			continue
		}
		key := ax.Name + "@" + args[0].T
		if done[key] || len(done) > 4000 {
			continue
		}
		done[key] = true
		x, err := parser.ParseExpr(ax.Text)
		if err != nil {
			w.fail("%s:%d: axiom %s: %v", ax.File, ax.Line, ax.Name, err)
			continue
		}
		call, ok := x.(*ast.CallExpr)
		if !ok || len(call.Args) != 3 {
			w.fail("%s:%d: axiom %s: inst axioms must have the form all(x, T, body)", ax.File, ax.Line, ax.Name)
			continue
		}
		id, ok := call.Args[0].(*ast.Ident)
		if !ok {
			continue
		}
		c := &SpecEnv{u: u, pkg: w.pkgByPath(ax.Pkg), vars: map[string]Val{id.Name: args[0]}, heap: e.heap, oldHeap: e.oldHeap, depth: e.depth + 1}
		func() {
			defer func() {
				if r := recover(); r != nil {
					if se, ok := r.(specErr); ok {
						w.fail("%s:%d: axiom %s: %s", ax.File, ax.Line, ax.Name, string(se))
						return
					}
					panic(r)
				}
			}()
			v := c.expr(call.Args[2])
			u.emit("(assert " + v.T + ")")
			u.trusted["axiom "+ax.Name+" (instantiated at use): "+ax.Text] = true
		}()
	}
}


// externSig resolves "(*pkg/path.Type).Method", "(pkg/path.Type).Method" or "pkg/path.Func".
func (w *World) externSig(key string) *types.Signature {
	if strings.HasPrefix(key, "(") {
		i := strings.Index(key, ").")
		if i < 0 {
			return nil
		}
		tn := strings.TrimPrefix(key[1:i], "*")
		ptr := strings.HasPrefix(key[1:i], "*")
		j := strings.LastIndex(tn, ".")
		if j < 0 {
			return nil
		}
		p := w.allTypes[tn[:j]]
		if p == nil {
			return nil
		}
		obj, ok := p.Scope().Lookup(tn[j+1:]).(*types.TypeName)
		if !ok {
			return nil
		}
		var t types.Type = obj.Type()
		if ptr {
			t = types.NewPointer(t)
		}
		m, _, _ := types.LookupFieldOrMethod(t, true, p, key[i+2:])
		if f, ok := m.(*types.Func); ok {
			return f.Type().(*types.Signature)
		}
		return nil
	}
	j := strings.LastIndex(key, ".")
	if j < 0 {
		return nil
	}
	if p := w.allTypes[key[:j]]; p != nil {
		if f, ok := p.Scope().Lookup(key[j+1:]).(*types.Func); ok {
			return f.Type().(*types.Signature)
		}
	}
	return nil
}

// tagsFiredBy: the trace tags whose traced calls may happen inside fn (transitively through the
// module functions and closures it calls statically).
func (w *World) tagsFiredBy(fn *ssa.Function) map[string]bool {
	if w.firedTags == nil {
		w.firedTags = map[*ssa.Function]map[string]bool{}
	}
	if t, ok := w.firedTags[fn]; ok {
		return t
	}
	out := map[string]bool{}
	w.firedTags[fn] = out // recursion guard (a cycle contributes what it has so far)
	if fn == nil || fn.Blocks == nil {
		return out
	}
	var visit func(f *ssa.Function, seen map[*ssa.Function]bool)
	visit = func(f *ssa.Function, seen map[*ssa.Function]bool) {
		if f == nil || f.Blocks == nil || seen[f] {
			return
		}
		seen[f] = true
		for _, b := range f.Blocks {
			for _, in := range b.Instrs {
				var c *ssa.CallCommon
				switch x := in.(type) {
				case *ssa.Call:
					c = &x.Call
				case *ssa.Defer:
					c = &x.Call
				case *ssa.Go:
					c = &x.Call
				case *ssa.MakeClosure:
					if cf, ok := x.Fn.(*ssa.Function); ok {
						visit(cf, seen)
					}
					continue
				default:
					continue
				}
				var callee *ssa.Function
				if !c.IsInvoke() {
					switch cv := c.Value.(type) {
					case *ssa.Builtin:
						continue
					case *ssa.Function:
						callee = cv
					case *ssa.MakeClosure:
						callee, _ = cv.Fn.(*ssa.Function)
					}
				}
				for _, tr := range w.Traces {
					if tr.matches(w, callee, c) {
						out[tr.Tag] = true
					}
				}
				if callee != nil && w.inModule(callee) {
					visit(callee, seen)
				}
			}
		}
	}
	visit(fn, map[*ssa.Function]bool{})
	return out
}
