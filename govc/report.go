package main

// Verdict policy (DESIGN §2.9): ledger of claimed obligation groups, known findings,
// VIOLATION / KNOWN-FINDING / UNDECIDED lines, evidence files.

import (
	"encoding/json"
	"fmt"
	"os"
	"path/filepath"
	"sort"
	"strings"
	"time"
)

type Ledger struct {
	Property  string         `json:"property"`
	Unclaimed []string       `json:"unclaimed,omitempty"` // units swept but not claimed (with undischarged obligations on the unchanged tree)
	Groups    map[string]int `json:"groups"`               // group name -> obligations on the unchanged tree
	Note     string         `json:"note,omitempty"`
}

type KnownFinding struct {
	Property   string `json:"property"`
	Obligation string `json:"obligation"` // obligation group (prefix match on the obligation name)
	Match      string `json:"match"`      // substring of the obligation's detail that identifies the failing input / site
	What       string `json:"what"`
	Status     string `json:"status"` // open | fixed:<commit>
}

func group(name string) string {
	if i := strings.LastIndex(name, "#"); i >= 0 {
		return name[:i]
	}
	return name
}

func loadLedger(dir, prop string) *Ledger {
	l := &Ledger{Property: prop, Groups: map[string]int{}}
	b, err := os.ReadFile(filepath.Join(dir, "ledger", prop+".json"))
	if err == nil {
		json.Unmarshal(b, l)
	}
	return l
}

func loadKnown(dir string) []KnownFinding {
	var ks []KnownFinding
	b, err := os.ReadFile(filepath.Join(dir, "known_findings.json"))
	if err == nil {
		json.Unmarshal(b, &ks)
	}
	return ks
}

type Report struct {
	Prop        string
	Tier        string
	Seed        int
	Start       time.Time
	Obls        []*Obligation
	Units       []*Unit
	Errors      []string // contract / generation errors
	Extra       map[string]any
	Assumptions []string
	Trusted     []string
	Functions   []string
	CheckerCmd  string
	LevelNote   string
	Bounded     []string
	QDir        string
	Timeout     int
	Mode        string
	Only        string
}

type Outcome struct {
	Violations []string
	Known      []string
	Undecided  []string
	Claimed    int
	Discharged int
}

// Decide applies the verdict policy, prints the protocol lines and writes the evidence.
func (r *Report) Decide(verifDir string, replay func(o *Obligation) (path string, concrete bool)) int {
	led := loadLedger(verifDir, r.Prop)
	known := loadKnown(verifDir)
	out := &Outcome{}
	seenGroups := map[string]int{}
	knownHit := map[int]bool{}
	backend := map[string]int{}
	solverTime := 0.0
	var samples []map[string]any
	var singleSolver []string
	sort.SliceStable(r.Obls, func(i, j int) bool { return r.Obls[i].Name < r.Obls[j].Name })
	violationLines := []string{}
	coverUnknown := 0
	for _, o := range r.Obls {
		g := group(o.Name)
		seenGroups[g]++
		solverTime += o.Time
		_, claimed := led.Groups[g]
		if o.Bounded != "" {
			// bounded stand-ins are never counted as proved obligations
			r.Bounded = append(r.Bounded, fmt.Sprintf("%s: %s [%s]", o.Name, o.Bounded, o.Status))
			if o.Status != "proved" && claimed {
				p := writeReplayFile(verifDir, o, o.Model, "bounded check failed on the real code:\n"+o.Output)
				violationLines = append(violationLines, fmt.Sprintf("VIOLATION property=%s replay=%s obligation=%s (bounded check failed on the real code)", r.Prop, p, o.Name))
			}
			continue
		}
		if o.Status == "proved" {
			backend[o.Solver]++
			if claimed {
				out.Claimed++
				out.Discharged++
			}
			if strings.Contains(o.Note, "[single-solver]") {
				singleSolver = append(singleSolver, o.Name)
			}
			if len(samples) < 6 && !o.Cover && (len(samples) == 0 || samples[len(samples)-1]["group"] != g) {
				samples = append(samples, map[string]any{"obligation": o.Name, "group": g, "kind": o.Kind, "source": o.Src, "text": clipText(o.Note), "backend": o.Solver, "time_s": round3(o.Time), "smt_bytes": o.SMTSize})
			}
			continue
		}
		if o.Cover && o.Status == "unknown" {
			coverUnknown++
			continue
		}
		// not proved: known finding?
		detail := o.Name + " " + o.Note + " " + o.Src
		kf := -1
		for i, k := range known {
			if k.Property == r.Prop && strings.HasPrefix(k.Status, "open") && strings.HasPrefix(o.Name, k.Obligation) && (k.Match == "" || strings.Contains(detail, k.Match)) {
				kf = i
				break
			}
		}
		if kf >= 0 {
			if !knownHit[kf] {
				knownHit[kf] = true
				out.Known = append(out.Known, fmt.Sprintf("KNOWN-FINDING: property=%s %s", r.Prop, known[kf].What))
			}
			continue
		}
		if claimed {
			out.Claimed++
		}
		path, concrete := "", false
		if replay != nil && (o.Status == "refuted" || claimed) {
			path, concrete = replay(o)
		}
		if path == "" {
			path = writeReplayFile(verifDir, o, "", "no concrete replay available for this obligation kind")
		}
		switch {
		case claimed && concrete:
			violationLines = append(violationLines, fmt.Sprintf("VIOLATION property=%s replay=%s obligation=%s", r.Prop, path, o.Name))
		case claimed:
			reason := "refuted"
			if o.Status == "unknown" {
				reason = "undecided-regression"
			}
			if o.Cover {
				reason = "vacuous-contract"
			}
			if o.SpecErr != "" {
				reason = "contract-error"
			}
			violationLines = append(violationLines, fmt.Sprintf("VIOLATION property=%s replay=%s obligation=%s reason=%s no-failing-input-found", r.Prop, path, o.Name, reason))
		case concrete:
			violationLines = append(violationLines, fmt.Sprintf("VIOLATION property=%s replay=%s obligation=%s (new obligation, replayed)", r.Prop, path, o.Name))
		default:
			out.Undecided = append(out.Undecided, fmt.Sprintf("UNDECIDED %s (%s; not in the ledger of claimed obligations)", o.Name, o.Status))
		}
	}
	// claimed groups that are no longer generated
	staleUnexported := map[string]bool{}
	staleSeen := map[string]bool{}
	for _, e := range r.Errors {
		if strings.HasPrefix(e, "STALE-CONTRACT") && staleIsUnexported(e) {
			for g := range led.Groups {
				if strings.Contains(e, "no function "+keyOfGroupFunc(groupFunc(g))+" in") {
					staleUnexported[groupFunc(g)] = true
				}
			}
		}
	}
	var gs []string
	for g := range led.Groups {
		gs = append(gs, g)
	}
	sort.Strings(gs)
	seenFunc := map[string]bool{}
	for g := range seenGroups {
		seenFunc[groupFunc(g)] = true
	}
	for _, g := range gs {
		if seenGroups[g] == 0 {
			if unexportedFuncGroup(g) && staleUnexported[groupFunc(g)] {
				// an unexported helper under contract was renamed/merged: its callers are
				// verified against the new code instead (anchoring on exported API, DESIGN §2.2)
				if !staleSeen[groupFunc(g)] {
					staleSeen[groupFunc(g)] = true
					out.Undecided = append(out.Undecided, "STALE-CONTRACT "+groupFunc(g)+": unexported helper no longer exists; its obligations are dropped, callers are checked against the current code")
				}
				continue
			}
			if safetyKindGroup(g) && seenFunc[groupFunc(g)] {
				// the function is still verified (its other groups are there) but no longer contains
				// any operation of this kind - an index, a dereference, a call with a precondition, a
				// store was removed: nothing is left to prove, nothing is violated
				continue
			}
			out.Claimed++
			o := &Obligation{Name: g + "#missing", Prop: r.Prop, Status: "missing", Note: "claimed obligation group is no longer generated (contract target renamed, removed, or no longer reached)"}
			path := writeReplayFile(verifDir, o, "", "obligation-missing")
			violationLines = append(violationLines, fmt.Sprintf("VIOLATION property=%s replay=%s obligation=%s reason=obligation-missing no-failing-input-found", r.Prop, path, g))
		}
	}
	for _, e := range r.Errors {
		if strings.HasPrefix(e, "STALE-CONTRACT") && staleIsUnexported(e) {
			continue
		}
		o := &Obligation{Name: r.Prop + "/contract-error", Prop: r.Prop, Status: "error", Note: e}
		path := writeReplayFile(verifDir, o, "", "contract could not be applied to the current source")
		violationLines = append(violationLines, fmt.Sprintf("VIOLATION property=%s replay=%s reason=contract-error no-failing-input-found :: %s", r.Prop, path, clipText(e)))
	}
	if out.Claimed == 0 && len(violationLines) == 0 {
		o := &Obligation{Name: r.Prop + "/vacuity", Prop: r.Prop, Status: "error", Note: "no claimed obligation was generated"}
		path := writeReplayFile(verifDir, o, "", "vacuity guard")
		violationLines = append(violationLines, fmt.Sprintf("VIOLATION property=%s replay=%s reason=no-obligations no-failing-input-found", r.Prop, path))
	}
	out.Violations = violationLines
	for _, l := range out.Known {
		fmt.Println(l)
	}
	for _, l := range out.Undecided {
		fmt.Println(l)
	}
	for _, l := range violationLines {
		fmt.Println(l)
	}
	// evidence
	trusted := map[string]bool{}
	notes := map[string]bool{}
	for _, u := range r.Units {
		for t := range u.trusted {
			trusted[t] = true
		}
		for n := range u.notes {
			notes[n] = true
		}
	}
	for _, t := range r.Trusted {
		trusted[t] = true
	}
	assumptions := append([]string{}, r.Assumptions...)
	for _, n := range sortedKeys(notes) {
		assumptions = append(assumptions, n)
	}
	level := "proof"
	cov := map[string]any{
		"obligations":              out.Claimed,
		"discharged":               out.Discharged,
		"checker_cmd":              r.CheckerCmd,
		"trusted_base":             sortedKeys(trusted),
		"generated":                len(r.Obls),
		"new_undecided":            out.Undecided,
		"known_findings":           out.Known,
		"bounded":                  r.Bounded,
		"functions_under_contract": r.Functions,
		"backend_counts":           backend,
		"solver_time_s":            round3(solverTime),
		"single_solver":            singleSolver,
		"cover_unknown":            coverUnknown,
		"samples":                  samples,
		"ledger_groups":            len(led.Groups),
	}
	if len(r.Bounded) > 0 {
		cov["explanation"] = "obligations/discharged count solver- or census-discharged obligations only; the entries under 'bounded' are bounded stand-ins (not counted as proved): " + strings.Join(r.Bounded, "; ")
	}
	// the level reported is the level claimed for this property in MANIFEST.json; a property whose
	// statement is only partly within reach of contracts is claimed (and reported) as `other`
	if cat, txt := manifestLevel(verifDir, r.Prop); cat != "" && cat != "proof" {
		level = cat
		ex, _ := cov["explanation"].(string)
		cov["explanation"] = strings.TrimSpace("The obligations below are proof obligations on the real functions (contracts, SMT-discharged), but they cover only part of the property as stated: " + txt + " " + ex)
	}
	for k, v := range r.Extra {
		cov[k] = v
	}
	ev := map[string]any{
		"property_id": r.Prop,
		"tier":        r.Tier,
		"seed":        r.Seed,
		"level":       level,
		"coverage":    cov,
		"assumptions": assumptions,
		"wall_s":      round3(time.Since(r.Start).Seconds()),
		"violations":  len(violationLines),
	}
	b, _ := json.MarshalIndent(ev, "", " ")
	os.MkdirAll(filepath.Join(verifDir, "evidence"), 0o755)
	os.WriteFile(filepath.Join(verifDir, "evidence", r.Prop+".json"), b, 0o644)
	fmt.Printf("%s: %d claimed obligations, %d discharged, %d generated, %d known findings, %d undecided, %d violations (%.1fs)\n",
		r.Prop, out.Claimed, out.Discharged, len(r.Obls), len(out.Known), len(out.Undecided), len(violationLines), time.Since(r.Start).Seconds())
	if len(violationLines) > 0 {
		return 1
	}
	return 0
}

func round3(x float64) float64 { return float64(int(x*1000+0.5)) / 1000 }

func writeReplayFile(verifDir string, o *Obligation, src, outcome string) string {
	dir := filepath.Join(verifDir, "replays")
	os.MkdirAll(dir, 0o755)
	p := filepath.Join(dir, clip(o.Name, 120)+".json")
	m := map[string]any{
		"property":      o.Prop,
		"obligation":    o.Name,
		"kind":          o.Kind,
		"status":        o.Status,
		"source":        o.Src,
		"text":          o.Note,
		"solver":        o.Solver,
		"solver_output": o.Output,
		"replay_source": src,
		"outcome":       outcome,
	}
	b, _ := json.MarshalIndent(m, "", " ")
	os.WriteFile(p, b, 0o644)
	return p
}

// WriteLedger records the groups whose obligations are all proved.
func WriteLedger(verifDir, prop string, obls []*Obligation) {
	ok := map[string]bool{}
	n := map[string]int{}
	known := loadKnown(verifDir)
	for _, o := range obls {
		g := group(o.Name)
		if _, seen := ok[g]; !seen {
			ok[g] = true
		}
		if o.Cover && o.Status == "unknown" {
			continue
		}
		n[g]++
		if o.Status != "proved" {
			// a failure that is a listed known finding does not unclaim the group: any other
			// failure in the same group must still be reported
			isKnown := false
			detail := o.Name + " " + o.Note + " " + o.Src
			for _, k := range known {
				if k.Property == prop && strings.HasPrefix(k.Status, "open") && strings.HasPrefix(o.Name, k.Obligation) && (k.Match == "" || strings.Contains(detail, k.Match)) {
					isKnown = true
				}
			}
			if !isKnown {
				ok[g] = false
			}
		}
	}
	l := &Ledger{Property: prop, Groups: map[string]int{}, Note: "claimed obligation groups: every obligation of the group was discharged on the unchanged tree when this file was written (govc ledger)"}
	for g, v := range ok {
		if v && n[g] > 0 {
			l.Groups[g] = n[g]
		} else if !v && strings.Contains(g, "/lint:") {
			l.Unclaimed = append(l.Unclaimed, groupFunc(g))
		}
	}
	sort.Strings(l.Unclaimed)
	b, _ := json.MarshalIndent(l, "", " ")
	os.MkdirAll(filepath.Join(verifDir, "ledger"), 0o755)
	os.WriteFile(filepath.Join(verifDir, "ledger", prop+".json"), b, 0o644)
	fmt.Printf("ledger %s: %d groups claimed\n", prop, len(l.Groups))
	for g, v := range ok {
		if !v {
			fmt.Println("  not claimed:", g)
		}
	}
}


// groupFunc extracts the function part of "<prop>/<func>/<kind>".
func groupFunc(g string) string {
	i := strings.Index(g, "/")
	j := strings.LastIndex(g, "/")
	if i < 0 || j <= i {
		return g
	}
	return g[i+1 : j]
}

// keyOfGroupFunc maps a display name like "(*lint.CertificateLint).execute" or
// "lint.checkEffective" to the contract key "(*CertificateLint).execute" / "checkEffective".
func keyOfGroupFunc(f string) string {
	if strings.HasPrefix(f, "(") {
		i := strings.Index(f, ")")
		inner := f[1:i]
		star := ""
		if strings.HasPrefix(inner, "*") {
			star = "*"
			inner = inner[1:]
		}
		if k := strings.LastIndex(inner, "."); k >= 0 {
			inner = inner[k+1:]
		}
		return "(" + star + inner + ")" + f[i+1:]
	}
	if k := strings.LastIndex(f, "."); k >= 0 {
		return f[k+1:]
	}
	return f
}

func unexportedFuncGroup(g string) bool {
	f := groupFunc(g)
	k := strings.LastIndex(f, ".")
	name := f[k+1:]
	return name != "" && name[0] >= 'a' && name[0] <= 'z'
}

func staleIsUnexported(e string) bool {
	// "STALE-CONTRACT file:line: no function KEY in PKG"
	i := strings.Index(e, "no function ")
	if i < 0 {
		return false
	}
	rest := e[i+len("no function "):]
	j := strings.Index(rest, " in ")
	if j < 0 {
		return false
	}
	key := rest[:j]
	k := strings.LastIndex(key, ".")
	name := key[k+1:]
	return name != "" && name[0] >= 'a' && name[0] <= 'z'
}

// manifestLevel reads the level claimed for a property from MANIFEST.json.
func manifestLevel(verifDir, prop string) (category, text string) {
	b, err := os.ReadFile(filepath.Join(verifDir, "MANIFEST.json"))
	if err != nil {
		return "", ""
	}
	var m struct {
		Checks []struct {
			PropertyID   string `json:"property_id"`
			LevelClaimed struct {
				Category string `json:"category"`
				Text     string `json:"text"`
			} `json:"level_claimed"`
			LevelNote string `json:"level_note"`
		} `json:"checks"`
	}
	if json.Unmarshal(b, &m) != nil {
		return "", ""
	}
	for _, c := range m.Checks {
		if c.PropertyID == prop {
			return c.LevelClaimed.Category, c.LevelNote
		}
	}
	return "", ""
}


// safetyKindGroup: groups of per-operation safety obligations; their number follows the code (one
// per index expression, dereference, call, store), so a group can legitimately become empty.
func safetyKindGroup(g string) bool {
	i := strings.LastIndex(g, "/")
	if i < 0 {
		return false
	}
	switch g[i+1:] {
	case "bounds", "nilderef", "typeassert", "divzero", "callpanic", "nilcall", "makeslice", "nilmap", "frame", "pre@callsite", "extpanic", "panic", "overflow":
		return true
	}
	return false
}
