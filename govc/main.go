package main

import (
	"flag"
	"fmt"
	"os"
	"sort"
	"strings"
)

func main() {
	if len(os.Args) < 2 {
		fmt.Fprintln(os.Stderr, "usage: govc <verify|check|...> [flags]")
		os.Exit(2)
	}
	switch os.Args[1] {
	case "verify":
		cmdVerify(os.Args[2:])
	default:
		fmt.Fprintln(os.Stderr, "unknown command", os.Args[1])
		os.Exit(2)
	}
}

func cmdVerify(args []string) {
	fs := flag.NewFlagSet("verify", flag.ExitOnError)
	prop := fs.String("prop", "", "property id")
	repo := fs.String("repo", "/repo/v3", "module dir")
	verif := fs.String("verif", "/verif", "verif dir")
	timeout := fs.Int("timeout", 10, "per-obligation timeout (s)")
	keep := fs.String("out", "/tmp/govc-out", "query dir")
	only := fs.String("only", "", "substring filter on obligation names")
	verbose := fs.Bool("v", false, "verbose")
	fs.Parse(args)
	w, err := LoadWorld(*repo, *verif)
	if err != nil {
		fmt.Fprintln(os.Stderr, err)
		os.Exit(2)
	}
	us := w.UnitsFor(*prop)
	var obls []*Obligation
	for _, u := range us {
		for _, o := range u.obls {
			if *only == "" || strings.Contains(o.Name, *only) {
				obls = append(obls, o)
			}
		}
	}
	for _, e := range w.errors {
		fmt.Println("ERROR:", e)
	}
	SolveAll(obls, *keep, *timeout, false, 8)
	sort.SliceStable(obls, func(i, j int) bool { return obls[i].Name < obls[j].Name })
	bad := 0
	for _, o := range obls {
		if o.Status != "proved" {
			bad++
		}
		if *verbose || o.Status != "proved" {
			fmt.Printf("%-8s %-60s %-7s %.2fs %s  -- %s\n", o.Status, o.Name, o.Solver, o.Time, o.Src, clipText(o.Note))
			if o.Status != "proved" {
				fmt.Println("   ", clipText(strings.ReplaceAll(o.Output, "\n", " ")))
			}
		}
	}
	for _, u := range us {
		if *verbose {
			for n := range u.notes {
				fmt.Println("note:", u.Name, n)
			}
			for n := range u.trusted {
				fmt.Println("trusted:", u.Name, n)
			}
		}
	}
	fmt.Printf("%d obligations, %d not proved, %d spec errors\n", len(obls), bad, len(w.errors))
}
