package main

import (
	"flag"
	"runtime"

	"golang.org/x/tools/go/ssa"
	"fmt"
	"os"
	"sort"
	"strconv"
	"strings"
	"time"
)

func main() {
	if len(os.Args) < 2 {
		fmt.Fprintln(os.Stderr, "usage: govc <check|ledger|verify> [flags]")
		os.Exit(2)
	}
	switch os.Args[1] {
	case "lints":
		w, err := LoadWorld("/repo/v3", "/verif")
		if err != nil {
			fmt.Fprintln(os.Stderr, err)
			os.Exit(2)
		}
		n := 0
		for _, li := range w.Lints() {
			n++
			ex := "-"
			if li.Execute != nil {
				ex = funcDisplayName(li.Execute)
			}
			fmt.Printf("%-70s %-6s %-14s eff=%s ineff=%s %s %v\n", li.Name, li.Kind, li.Source, li.Eff.Format("2006-01-02"), li.Ineff.Format("2006-01-02"), ex, li.Problems)
		}
		fmt.Println(n, "registrations")
	case "selfreplay":
		// selfreplay <obligation-name>: runs the model-free replay registered for that obligation name
		// on the current tree (must PASS on the unchanged tree: a replay that fails there is a false alarm)
		w, err := LoadWorld("/repo/v3", "/verif")
		if err != nil {
			fmt.Fprintln(os.Stderr, err)
			os.Exit(2)
		}
		rp := &Replayer{W: w, Verif: os.TempDir()}
		o := &Obligation{Name: os.Args[2], Status: "unknown"}
		path, concrete := rp.Replay(o)
		fmt.Println("replay file:", path, "failed-on-real-code:", concrete)
		if concrete {
			os.Exit(1)
		}
	case "verify", "check", "ledger":
		os.Exit(cmdCheck(os.Args[1], os.Args[2:]))
	default:
		fmt.Fprintln(os.Stderr, "unknown command", os.Args[1])
		os.Exit(2)
	}
}

// extraEngines: property-specific obligation generators beyond function contracts
// (census, schematic sweeps, frame checker, relational). Filled in by other files.
var extraEngines = map[string][]func(w *World, r *Report) []*Obligation{}

// loadFactor: 1 normally, 2 or 3 when the machine is heavily loaded (time limits are stretched by it)
var loadFactor = 1

func cmdCheck(mode string, args []string) int {
	fs := flag.NewFlagSet(mode, flag.ExitOnError)
	prop := fs.String("prop", "", "property id")
	repo := fs.String("repo", "/repo/v3", "module dir")
	verif := fs.String("verif", "/verif", "verif dir")
	tier := fs.String("tier", "quick", "quick | thorough")
	timeout := fs.Int("timeout", 0, "per-obligation timeout (s); default 10 quick / 60 thorough")
	out := fs.String("out", "", "query dir (default: a temp dir removed afterwards)")
	only := fs.String("only", "", "substring filter on obligation names (verify mode)")
	verbose := fs.Bool("v", false, "verbose")
	fs.Parse(args)
	if t := os.Getenv("VERIF_TIER"); t != "" && *tier == "quick" {
		*tier = t
	}
	seed, _ := strconv.Atoi(os.Getenv("VERIF_SEED"))
	if *timeout == 0 {
		*timeout = 10
		if *tier == "thorough" {
			*timeout = 60
		}
	}
	// On a machine that is busy with other work (several checks side by side, test suites running)
	// the solvers get a fraction of a core each and run into time limits that they meet with room
	// to spare otherwise; the limits are wall-clock, so they are stretched with the load.
	loadFactor = 1
	if b, err := os.ReadFile("/proc/loadavg"); err == nil {
		var l1 float64
		fmt.Sscanf(string(b), "%f", &l1)
		if n := float64(runtime.NumCPU()); n > 0 && l1 > 1.25*n {
			loadFactor = 2
			if l1 > 2.5*n {
				loadFactor = 3
			}
			*timeout *= loadFactor
		}
	}
	start := time.Now()
	w, err := LoadWorld(*repo, *verif)
	if err != nil {
		fmt.Fprintln(os.Stderr, "govc: cannot load the module:", err)
		if mode == "check" {
			// the tree does not compile: no property can be decided
			fmt.Printf("ERROR property=%s the working tree does not build\n", *prop)
		}
		return 2
	}
	r := &Report{Prop: *prop, Tier: *tier, Seed: seed, Start: start, Extra: map[string]any{}}
	r.CheckerCmd = fmt.Sprintf("/verif/bin/govc check -prop %s -tier %s  (VC generation from go/ssa of /repo/v3 with -tags verif; back ends z3-new 5.1.0 | z3 4.8.12 | cvc5 1.0, first definite answer wins)", *prop, *tier)
	us := w.UnitsFor(*prop)
	r.Units = us
	var obls []*Obligation
	for _, u := range us {
		r.Functions = append(r.Functions, u.Name)
		for _, o := range u.obls {
			if *only == "" || strings.Contains(o.Name, *only) {
				obls = append(obls, o)
			}
		}
	}
	qdir := *out
	if qdir == "" {
		qdir, _ = os.MkdirTemp("", "govc-q-")
		defer os.RemoveAll(qdir)
	}
	SolveAll(obls, qdir, *timeout, *tier == "thorough", 8)
	r.QDir, r.Timeout, r.Mode, r.Only = qdir, *timeout, mode, *only
	for _, eng := range extraEngines[*prop] {
		obls = append(obls, eng(w, r)...)
	}
	// An obligation that comes back undecided may simply have lost the race against the clock on
	// a busy machine. Before it is reported, a small number of undecided obligations get a second,
	// unhurried attempt (three times the time limit, little parallelism). Many undecided obligations
	// at once are not a load effect and are reported as they are.
	if mode == "check" {
		var again []*Obligation
		for _, o := range obls {
			if o.Status == "unknown" && !o.Cover && o.Unit != nil {
				again = append(again, o)
			}
		}
		if len(again) > 0 && len(again) <= 16 {
			SolveAll(again, qdir, *timeout*3, false, 4)
			n := 0
			for _, o := range again {
				if o.Status == "proved" {
					n++
					o.Note += " [decided at the second attempt with 3x the time limit]"
				}
			}
			r.Extra["undecided_retried"] = len(again)
			r.Extra["undecided_retried_proved"] = n
		}
	}
	r.Obls = obls
	r.Errors = w.errors
	if mode == "verify" {
		sort.SliceStable(obls, func(i, j int) bool { return obls[i].Name < obls[j].Name })
		bad := 0
		for _, e := range w.errors {
			fmt.Println("ERROR:", e)
		}
		for _, o := range obls {
			if o.Status != "proved" {
				bad++
			}
			if *verbose || o.Status != "proved" {
				fmt.Printf("%-8s %-60s %-7s %.2fs %s  -- %s\n", o.Status, o.Name, o.Solver, o.Time, o.Src, clipText(o.Note))
				if o.Status != "proved" {
					fmt.Println("   ", clipText(strings.ReplaceAll(o.Output, "\n", " ")))
				}
			}
		}
		if *verbose {
			for _, u := range us {
				for n := range u.notes {
					fmt.Println("note:", u.Name, n)
				}
				for n := range u.trusted {
					fmt.Println("trusted:", u.Name, n)
				}
			}
		}
		fmt.Printf("%d obligations, %d not proved, %d spec errors (%.1fs)\n", len(obls), bad, len(w.errors), time.Since(start).Seconds())
		return 0
	}
	if mode == "ledger" {
		for _, e := range w.errors {
			fmt.Println("ERROR:", e)
		}
		WriteLedger(*verif, *prop, obls)
		var fns []*ssa.Function
		for _, u := range us {
			if u.fn != nil {
				fns = append(fns, u.fn)
			}
		}
		w.recordLocals(fns)
		return 0
	}
	rp := &Replayer{W: w, Verif: *verif}
	return r.Decide(*verif, rp.Replay)
}
