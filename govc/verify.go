package main

import (
	"os"
	"fmt"
	"go/types"
	"strings"

	"golang.org/x/tools/go/ssa"
)

// VerifyFunc generates the obligations of one function under contract for a property.
func (w *World) VerifyFunc(c *Contract, prop string) (*Unit, error) {
	fn := w.findFunction(c)
	if fn == nil {
		return nil, fmt.Errorf("STALE-CONTRACT %s:%d: no function %s in %s", c.File, c.Line, c.Key, c.Pkg)
	}
	if fn.Blocks == nil {
		return nil, fmt.Errorf("%s has no body", c.Key)
	}
	c.Used = true
	u := NewUnit(w, funcDisplayName(fn), prop)
	u.fn = fn
	u.closure = c.Closure
	u.safety = c.Flags["nopanic"]
	u.overflow = c.Flags["overflow"]
	f := u.newFrame(fn, c, 0)
	f.top = true
	heap := u.newHeap(&Link{kind: "entry"})
	u.scalar("$top", "Int")
	top0 := u.hget(heap, "$top")
	u.top0 = top0
	for _, p := range fn.Params {
		x := u.fresh("param."+p.Name(), u.D.SortOf(p.Type()))
		f.vals[p] = Val{T: x, Typ: p.Type()}
		u.assumeRange(x, p.Type())
		u.wellFormedLoaded(heap, x, p.Type())
		u.modelTerms = append(u.modelTerms, x)
	}
	_ = top0
	for _, fv := range fn.FreeVars {
		x := u.fresh("freevar."+fv.Name(), u.D.SortOf(fv.Type()))
		f.vals[fv] = Val{T: x, Typ: fv.Type()}
		u.wellFormedLoaded(heap, x, fv.Type())
	}
	env := f.specEnvAt(nil, heap)
	env.oldHeap = heap
	f.entryHeap = heap
	f.bindLets(env, c)
	for _, cl := range c.ClausesOf("requires") {
		t, err := env.evalBool(cl.Text)
		if err != nil {
			w.fail("%s:%d: requires: %v", cl.File, cl.Line, err)
			continue
		}
		u.assume("true", t)
	}
	// frame of the function under contract
	if as := c.ClausesOf("assigns"); len(as) > 0 || c.Flags["pure"] {
		fs := &frameSpec{top0: top0}
		for _, cl := range as {
			for _, item := range splitTop(cl.Text, ',') {
				item = strings.TrimSpace(item)
				switch {
				case item == `\nothing`, item == `\fresh`, item == "":
				case item == `\all`:
					fs.all = true
				case strings.HasPrefix(item, `\elems(`):
					av, err := env.eval(strings.TrimSuffix(strings.TrimPrefix(item, `\elems(`), ")"))
					if err != nil {
						w.fail("%s:%d: assigns: %v", cl.File, cl.Line, err)
						continue
					}
					if sl, ok := av.Typ.Underlying().(*types.Slice); ok {
						earr, esort := u.elemArr(sl.Elem())
						fs.locs = append(fs.locs, &Loc{Arr: earr, Sort: esort, Key: "(sl.base " + av.T + ")", Typ: sl.Elem()})
					}
				case strings.HasPrefix(item, `\mapof(`):
					// the entries of a map (its header is a reference; the contents live in dom/val rows)
					av, err := env.eval(strings.TrimSuffix(strings.TrimPrefix(item, `\mapof(`), ")"))
					if err != nil {
						w.fail("%s:%d: assigns: %v", cl.File, cl.Line, err)
						continue
					}
					if mt, ok := av.Typ.Underlying().(*types.Map); ok {
						dom, val := u.mapArrs(mt)
						fs.locs = append(fs.locs, &Loc{Arr: dom, Key: av.T, Typ: mt}, &Loc{Arr: val, Key: av.T, Typ: mt})
					} else {
						w.fail("%s:%d: assigns: \\mapof of non-map", cl.File, cl.Line)
					}
				case strings.HasPrefix(item, `\after(`):
					av, err := env.eval(strings.TrimSuffix(strings.TrimPrefix(item, `\after(`), ")"))
					if err != nil {
						w.fail("%s:%d: assigns: %v", cl.File, cl.Line, err)
						continue
					}
					fs.afters = append(fs.afters, refOf(u, av))
				default:
					l, err := env.evalLoc(item)
					if err != nil {
						w.fail("%s:%d: assigns: %v", cl.File, cl.Line, err)
						continue
					}
					fs.locs = append(fs.locs, l)
				}
			}
		}
		f.frame = fs
	}
	o := u.oblige("cover", f.fname, "true", "true", c.File+":"+fmt.Sprint(c.Line), "preconditions satisfiable")
	o.Cover = true
	f.run(heap, "true")
	// vacuity guard: the assumptions collected on the way (callee postconditions, external
	// contracts, invariants) must leave some return reachable, or every postcondition would hold
	// trivially. Individual returns may well be dead under the contracts (defensive error paths).
	if len(f.retConds) > 0 && len(c.ClausesOf("ensures")) > 0 {
		o := u.oblige("cover.returns", f.fname, "true", or(f.retConds...), c.File+":"+fmt.Sprint(c.Line), "some return is reachable under the assumptions made on the way")
		o.Cover = true
	}
	return u, nil
}

// VerifyLemma: a closed formula proved from the axioms/prelude.
func (w *World) VerifyLemma(l *Lemma, prop string) (*Unit, error) {
	u := NewUnit(w, "lemma."+l.Name, prop)
	heap := u.newHeap(&Link{kind: "entry"})
	env := &SpecEnv{u: u, pkg: w.pkgByPath(l.Pkg), vars: map[string]Val{}, heap: heap, oldHeap: heap}
	for _, p := range l.Params {
		var pt types.Type
		func() {
			defer func() { recover() }()
			pt = w.resolveTypeText(env.pkg, p.Type)
		}()
		if pt == nil {
			return nil, fmt.Errorf("%s:%d: lemma %s: bad parameter type %s", l.File, l.Line, l.Name, p.Type)
		}
		x := u.fresh("lemma."+p.Name, u.D.SortOf(pt))
		if p.Type != "int" {
			u.assumeRange(x, pt)
		}
		env.vars[p.Name] = Val{T: x, Typ: pt}
		u.modelTerms = append(u.modelTerms, x)
	}
	t, err := env.evalBool(l.Text)
	if err != nil {
		return nil, fmt.Errorf("%s:%d: lemma %s: %v", l.File, l.Line, l.Name, err)
	}
	u.oblige("lemma", "lemma."+l.Name, "true", t, l.File+":"+fmt.Sprint(l.Line), l.Text)
	return u, nil
}

func hasProp(ps []string, p string) bool {
	for _, q := range ps {
		if q == p {
			return true
		}
	}
	return false
}

// UnitsFor builds all units of a property from the contract files.
func (w *World) UnitsFor(prop string) []*Unit {
	var us []*Unit
	for _, c := range w.CS.Contracts {
		if c.Kind != "func" || !c.HasProp(prop) || c.Flags["trusted"] {
			continue
		}
		u, err := w.VerifyFunc(c, prop)
		if err != nil {
			w.fail("%v", err)
			continue
		}
		us = append(us, u)
	}
	// Modular closure: a unit of this property was verified against the CONTRACTS of the module
	// functions it calls. Those contracts are proved from their bodies in the checks of the
	// properties they are tagged with - but a change that breaks such a callee would then be
	// reported only there. So every contract that a unit of this property applied at a call site
	// is verified here as well, with all its clauses (transitively).
	if os.Getenv("GOVC_NOCLOSURE") == "" {
		for changed := true; changed; {
			changed = false
			for _, c := range w.CS.Contracts {
				if c.Kind != "func" || !c.Used || c.Closure || c.HasProp(prop) || c.Flags["trusted"] {
					continue
				}
				if fn := w.findFunction(c); fn == nil || fn.Blocks == nil {
					continue
				}
				c.Closure = true
				changed = true
				u, err := w.VerifyFunc(c, prop)
				if err != nil {
					w.fail("%v", err)
					continue
				}
				u.note("verified under " + prop + " because a unit of this property applies its contract at a call site (modular closure)")
				us = append(us, u)
			}
		}
	}
	for _, l := range w.CS.Lemmas {
		if l.Axiom || !hasProp(l.Props, prop) {
			continue
		}
		u, err := w.VerifyLemma(l, prop)
		if err != nil {
			w.fail("%v", err)
			continue
		}
		us = append(us, u)
	}
	return us
}

func describeFn(fn *ssa.Function) string {
	var sb strings.Builder
	fn.WriteTo(&sb)
	return sb.String()
}

var _ = types.Typ
