package main

// C12: every lint in the tree is registered once, reachable and well-formed. Preconditions
// of the Register*Lint call sites, decided over the registration census of the current tree
// (constant metadata; dates evaluated with Go's time.Date), plus tree-level obligations:
// unique names across kinds, every lint type registered, every lint package linked in.

import (
	"fmt"
	"go/ast"
	"go/parser"
	"go/token"
	"go/types"
	"os"
	"path/filepath"
	"sort"
	"strings"
	"unicode"
)

func init() {
	extraEngines["C12"] = append(extraEngines["C12"], c12Census)
}

func knownSources(w *World) map[string]bool {
	out := map[string]bool{}
	p := w.pkgByPath(w.ModPath + "/lint")
	tn, _ := p.Scope().Lookup("LintSource").(*types.TypeName)
	if tn == nil {
		return out
	}
	for _, n := range p.Scope().Names() {
		if c, ok := p.Scope().Lookup(n).(*types.Const); ok && types.Identical(c.Type(), tn.Type()) && n != "UnknownLintSource" {
			out[strings.Trim(c.Val().ExactString(), "\"")] = true
		}
	}
	return out
}

func c12Census(w *World, r *Report) []*Obligation {
	lints := w.Lints()
	srcs := knownSources(w)
	var out []*Obligation
	seen := map[string]*LintInfo{}
	for i, li := range lints {
		var probs []string
		switch {
		case !li.NameOK:
			probs = append(probs, "name is not a constant string")
		case li.Name == "":
			probs = append(probs, "empty name")
		default:
			if !(strings.HasPrefix(li.Name, "e_") || strings.HasPrefix(li.Name, "w_") || strings.HasPrefix(li.Name, "n_")) {
				probs = append(probs, "name lacks the e_/w_/n_ prefix")
			}
			if strings.ToLower(li.Name) != li.Name {
				probs = append(probs, "name is not lower-case")
			}
			for _, c := range li.Name {
				if unicode.IsSpace(c) {
					probs = append(probs, "name contains white space")
				}
			}
		}
		if !li.DescOK || li.Description == "" {
			probs = append(probs, "empty or non-constant description")
		}
		if !li.SourceOK || !srcs[li.Source] {
			probs = append(probs, fmt.Sprintf("source %q is not a known LintSource", li.Source))
		}
		if li.CtorNil || li.Ctor == nil {
			probs = append(probs, "nil or unknown constructor")
		} else if li.Impl == nil {
			probs = append(probs, "constructor does not return a freshly allocated lint value")
		}
		if !li.EffKnown || !li.IneffKnown {
			probs = append(probs, "effective/ineffective date is not a constant time.Date")
		} else if !li.Eff.IsZero() && !li.Ineff.IsZero() && !li.Eff.Before(li.Ineff) {
			probs = append(probs, fmt.Sprintf("effective date %s does not precede ineffective date %s", li.Eff.Format("2006-01-02"), li.Ineff.Format("2006-01-02")))
		}
		if !li.InInit {
			probs = append(probs, "registration is not inside an init function")
		}
		if prev, dup := seen[li.Name]; dup && li.NameOK {
			probs = append(probs, fmt.Sprintf("name already registered at %s (%s)", prev.Site, prev.Kind))
		}
		seen[li.Name] = li
		id := li.Name
		if id == "" {
			id = fmt.Sprintf("site%d", i)
		}
		o := censusObl("C12", "C12/registrations/wellformed#"+id, "pre@callsite", li.Site,
			"requires of "+li.RegFn+": non-nil constructor, e_/w_/n_ lower-case name, description, known source, effective < ineffective, name not yet registered (any kind), called from init",
			len(probs) == 0, strings.Join(probs, "; "))
		out = append(out, o)
	}
	r.Extra["registrations"] = len(lints)
	r.Extra["distinct_names"] = len(seen)
	out = append(out, censusObl("C12", "C12/registrations/count#1", "census", "", "number of registration call sites equals the number of distinct names", len(seen) == len(lints) && len(lints) > 0, fmt.Sprintf("%d call sites, %d names", len(lints), len(seen))))

	// every lint type (a type with CheckApplies and Execute in a package under lints/) is registered
	impl := map[string]bool{}
	lintPkgs := map[string]bool{}
	for _, li := range lints {
		if li.Impl != nil {
			impl[types.TypeString(li.Impl, nil)] = true
		}
		lintPkgs[li.Pkg] = true
	}
	var unregistered []string
	for _, p := range w.Pkgs {
		if !strings.HasPrefix(p.PkgPath, w.ModPath+"/lints/") {
			continue
		}
		sc := p.Types.Scope()
		for _, n := range sc.Names() {
			tn, ok := sc.Lookup(n).(*types.TypeName)
			if !ok || tn.IsAlias() {
				continue
			}
			if _, isIface := tn.Type().Underlying().(*types.Interface); isIface {
				continue
			}
			pt := types.NewPointer(tn.Type())
			ms := types.NewMethodSet(pt)
			if ms.Lookup(p.Types, "CheckApplies") != nil && ms.Lookup(p.Types, "Execute") != nil {
				if !impl[types.TypeString(pt, nil)] && !impl[types.TypeString(tn.Type(), nil)] {
					unregistered = append(unregistered, p.Types.Name()+"."+n+" ("+posStr(w.Fset, tn.Pos())+")")
				}
			}
		}
	}
	sort.Strings(unregistered)
	out = append(out, censusObl("C12", "C12/tree/alltypes#1", "census", "", "every type with CheckApplies and Execute under v3/lints is the implementation of some registration", len(unregistered) == 0, strings.Join(unregistered, ", ")))

	// every lint_*.go source file contains a registration
	var orphanFiles []string
	regFiles := map[string]bool{}
	for _, li := range lints {
		regFiles[li.Pkg+"/"+li.File] = true
	}
	nfiles := 0
	for _, p := range w.Pkgs {
		if !strings.HasPrefix(p.PkgPath, w.ModPath+"/lints/") {
			continue
		}
		for _, f := range p.CompiledGoFiles {
			b := filepath.Base(f)
			if strings.HasPrefix(b, "lint_") && !strings.HasSuffix(b, "_test.go") {
				nfiles++
				if !regFiles[p.PkgPath+"/"+b] {
					orphanFiles = append(orphanFiles, p.Types.Name()+"/"+b)
				}
			}
		}
	}
	r.Extra["lint_source_files"] = nfiles
	out = append(out, censusObl("C12", "C12/tree/files#1", "census", "", "every lints/<pkg>/lint_*.go file contains a registration call", len(orphanFiles) == 0, strings.Join(orphanFiles, ", ")))

	// no registration hides in a file that Go compiles only into the package's test binary (any
	// *_test.go under v3/lints, e.g. the definition file of a lint whose name ends in "_test"): such
	// a lint passes its own unit test but is never linked into a default build
	var testOnly []string
	testFiles, _ := filepath.Glob(filepath.Join(w.RepoDir, "lints", "*", "*_test.go"))
	tfset := token.NewFileSet()
	for _, tf := range testFiles {
		src, err := os.ReadFile(tf)
		if err != nil || !strings.Contains(string(src), "Register") {
			continue
		}
		af, err := parser.ParseFile(tfset, tf, src, parser.SkipObjectResolution)
		if err != nil {
			continue
		}
		ast.Inspect(af, func(n ast.Node) bool {
			ce, ok := n.(*ast.CallExpr)
			if !ok {
				return true
			}
			if se, ok := ce.Fun.(*ast.SelectorExpr); ok {
				switch se.Sel.Name {
				case "RegisterLint", "RegisterCertificateLint", "RegisterRevocationListLint", "RegisterOcspResponseLint":
					rel, _ := filepath.Rel(w.RepoDir, tf)
					testOnly = append(testOnly, fmt.Sprintf("%s:%d", rel, tfset.Position(ce.Pos()).Line))
				}
			}
			return true
		})
	}
	r.Extra["lint_test_files_scanned"] = len(testFiles)
	out = append(out, censusObl("C12", "C12/tree/testonly#1", "census", "", "no lint registration lives in a *_test.go file under v3/lints (it would exist only in the package's test binary)", len(testOnly) == 0, strings.Join(testOnly, ", ")))

	// every directory under v3/lints with Go files is a loaded package that registers lints and is
	// blank-imported by the root package (so a default build links it in)
	rootImports := map[string]bool{}
	if rp := w.pkgByPath(w.ModPath); rp != nil {
		for _, ip := range rp.Imports() {
			rootImports[ip.Path()] = true
		}
	}
	var notLinked []string
	ents, _ := os.ReadDir(filepath.Join(w.RepoDir, "lints"))
	for _, e := range ents {
		if !e.IsDir() {
			continue
		}
		gofiles, _ := filepath.Glob(filepath.Join(w.RepoDir, "lints", e.Name(), "*.go"))
		has := false
		for _, g := range gofiles {
			if !strings.HasSuffix(g, "_test.go") && !strings.HasPrefix(filepath.Base(g), "zz_verif") {
				has = true
			}
		}
		if !has {
			continue
		}
		path := w.ModPath + "/lints/" + e.Name()
		if !rootImports[path] {
			notLinked = append(notLinked, e.Name()+" (not imported by v3/zlint.go)")
		} else if !lintPkgs[path] {
			notLinked = append(notLinked, e.Name()+" (no registrations)")
		}
	}
	out = append(out, censusObl("C12", "C12/tree/linked#1", "census", "v3/zlint.go", "every lint package directory is imported by the root package and registers lints", len(notLinked) == 0, strings.Join(notLinked, ", ")))
	r.Trusted = append(r.Trusted, "Go links and runs init() of every (blank-)imported package before main; registration metadata are compile-time constants read from the SSA of the init functions; time.Date evaluated by the generator")
	return out
}
