package main

// Effect census over lint-reachable code (DESIGN §2.6, back end "frame-checker": syntactic,
// interprocedural over SSA; never reported as solver-discharged).
//   F2  no ambient input/output: clock, randomness, environment, file system, network, process
//   F4  iteration order: every `range` over a map only feeds order-insensitive sinks
//   F5  no locks/channels/goroutines; package-level variables are written by initialisers only
// The write frame F1 is decided per lint by the solver (schematic.go, prop C05).

import (
	"fmt"
	"go/token"
	"go/types"
	"sort"
	"strings"

	"golang.org/x/tools/go/ssa"
)

func init() {
	extraEngines["C05"] = append(extraEngines["C05"], censusAmbient, censusMapOrder, censusGlobalWrites)
	extraEngines["C10"] = append(extraEngines["C10"], censusGlobalWrites, censusSync)
}

// lintReachable: functions reachable from the lint bodies, constructors, the framework entry
// points and the registry read API (static calls + interface dispatch inside the module).
func (w *World) lintReachable() map[*ssa.Function]bool {
	if w.reach != nil {
		return w.reach
	}
	reach := map[*ssa.Function]bool{}
	var work []*ssa.Function
	add := func(f *ssa.Function) {
		if f != nil && !reach[f] && f.Blocks != nil && w.inModule(f) {
			reach[f] = true
			work = append(work, f)
		}
	}
	for _, li := range w.Lints() {
		add(li.CheckApplies)
		add(li.Execute)
		add(li.Configure)
		add(li.Ctor)
	}
	// the library entry points; the framework and the registry accessors follow by call edges
	if rp := w.ssaPkg(w.ModPath); rp != nil {
		for _, n := range []string{"LintCertificateEx", "LintRevocationListEx", "LintOcspResponseEx", "LintCertificate", "LintRevocationList", "LintOcspResponse"} {
			add(rp.Func(n))
		}
	}
	// method sets for interface dispatch
	impls := map[string][]*ssa.Function{}
	for fn := range allFunctions(w) {
		if fn.Signature.Recv() != nil && fn.Blocks != nil {
			impls[fn.Name()] = append(impls[fn.Name()], fn)
		}
	}
	for len(work) > 0 {
		fn := work[len(work)-1]
		work = work[:len(work)-1]
		for _, a := range fn.AnonFuncs {
			add(a)
		}
		for _, b := range fn.Blocks {
			for _, in := range b.Instrs {
				var cc *ssa.CallCommon
				switch x := in.(type) {
				case *ssa.Call:
					cc = &x.Call
				case *ssa.Defer:
					cc = &x.Call
				case *ssa.Go:
					cc = &x.Call
				}
				if cc == nil {
					continue
				}
				if callee := cc.StaticCallee(); callee != nil {
					add(callee)
					continue
				}
				if cc.IsInvoke() {
					for _, m := range impls[cc.Method.Name()] {
						if types.Implements(m.Signature.Recv().Type(), cc.Value.Type().Underlying().(*types.Interface)) {
							add(m)
						}
					}
				}
			}
		}
	}
	w.reach = reach
	return reach
}

var ambientPkgs = []string{"os", "os/exec", "os/signal", "os/user", "io/ioutil", "net/http", "net/rpc", "syscall", "math/rand", "math/rand/v2", "crypto/rand", "runtime", "runtime/debug", "plugin", "log", "log/slog", "unsafe", "github.com/sirupsen/logrus"}
var ambientFuncs = map[string]bool{
	"time.Now": true, "time.Since": true, "time.Until": true, "time.Sleep": true, "time.After": true, "time.Tick": true, "time.NewTimer": true, "time.NewTicker": true, "time.AfterFunc": true,
	"net.Dial": true, "net.DialTimeout": true, "net.Listen": true, "net.LookupHost": true, "net.LookupIP": true, "net.LookupAddr": true, "net.LookupCNAME": true, "net.LookupMX": true, "net.LookupTXT": true, "net.LookupNS": true, "net.ResolveIPAddr": true, "net.ResolveTCPAddr": true, "net.Interfaces": true, "net.InterfaceAddrs": true,
	"fmt.Print": true, "fmt.Printf": true, "fmt.Println": true, "fmt.Scan": true, "fmt.Scanf": true, "fmt.Scanln": true,
}

// the exceptions the property itself makes
var ambientAllowed = map[string]map[string]bool{
	"time.Now": {
		"LintCertificateEx": true, "LintRevocationListEx": true, "LintOcspResponseEx": true, // result-set timestamp
	},
}

func ambientName(fn *ssa.Function) string {
	if fn == nil || fn.Blocks != nil {
		return ""
	}
	s := fn.String()
	pkg := ""
	if fn.Pkg != nil {
		pkg = fn.Pkg.Pkg.Path()
	} else if fn.Object() != nil && fn.Object().Pkg() != nil {
		pkg = fn.Object().Pkg().Path()
	}
	for _, p := range ambientPkgs {
		if pkg == p {
			return s
		}
	}
	if ambientFuncs[s] {
		return s
	}
	return ""
}

func censusAmbient(w *World, r *Report) []*Obligation {
	reach := w.lintReachable()
	var bad []string
	ncalls := 0
	clockLints := map[string]bool{}
	for fn := range reach {
		for _, b := range fn.Blocks {
			for _, in := range b.Instrs {
				call, ok := in.(*ssa.Call)
				if !ok {
					continue
				}
				ncalls++
				name := ambientName(call.Call.StaticCallee())
				if name == "" {
					continue
				}
				if ambientAllowed[name][fn.Name()] {
					continue
				}
				if name == "time.Now" {
					// the two AIA internal-name lints compare with today's TLD table (named by the property)
					clockLints[fn.String()] = true
					continue
				}
				bad = append(bad, fmt.Sprintf("%s calls %s (%s)", funcDisplayName(fn), name, posStr(w.Fset, call.Pos())))
			}
		}
	}
	sort.Strings(bad)
	var cl []string
	for k := range clockLints {
		cl = append(cl, k)
	}
	sort.Strings(cl)
	r.Extra["functions_reachable_from_lints"] = len(reach)
	r.Extra["calls_scanned"] = ncalls
	r.Extra["clock_readers"] = cl
	out := []*Obligation{censusObl(r.Prop, r.Prop+"/tree/ambient#1", "frame", "", "no lint-reachable function calls into os, net (dial/lookup), rand, runtime, logging, stdout printing or the clock (exceptions: result-set timestamp)", len(bad) == 0, strings.Join(bad, "; "))}
	// exactly the two lints named by the property may read the clock
	okClock := len(cl) <= 2
	for _, c := range cl {
		if !strings.Contains(c, "AIA") && !strings.Contains(c, "aia") && !strings.Contains(c, "InternalName") {
			okClock = false
		}
	}
	out = append(out, censusObl(r.Prop, r.Prop+"/tree/clock#1", "frame", "", "time.Now is read only by the two AIA internal-name lints (the exception the property names)", okClock, strings.Join(cl, ", ")))
	for _, o := range out {
		o.Solver = "frame-checker"
	}
	r.Trusted = append(r.Trusted, "effect table for externals: every external not in the ambient list (os, os/exec, io/ioutil, net dial/lookup, net/http, syscall, math/rand, crypto/rand, runtime, log, logrus, fmt.Print*, time.Now/Since/Sleep/...) is assumed free of ambient input/output; call graph = static calls + interface dispatch to module methods of matching name and type")
	return out
}

// censusGlobalWrites: outside package initialisers nothing reachable from linting writes a
// package-level variable (or a map/slice element reached directly from one).
func censusGlobalWrites(w *World, r *Report) []*Obligation {
	reach := w.lintReachable()
	var bad []string
	fromGlobal := func(v ssa.Value) *ssa.Global {
		for i := 0; i < 6; i++ {
			switch x := v.(type) {
			case *ssa.Global:
				return x
			case *ssa.UnOp:
				v = x.X
			case *ssa.FieldAddr:
				v = x.X
			case *ssa.IndexAddr:
				v = x.X
			default:
				return nil
			}
		}
		return nil
	}
	for fn := range reach {
		if strings.HasPrefix(fn.Name(), "init") {
			continue
		}
		for _, b := range fn.Blocks {
			for _, in := range b.Instrs {
				switch x := in.(type) {
				case *ssa.Store:
					if g := fromGlobal(x.Addr); g != nil {
						bad = append(bad, fmt.Sprintf("%s writes %s (%s)", funcDisplayName(fn), g.Name(), posStr(w.Fset, x.Pos())))
					}
				case *ssa.MapUpdate:
					if g := fromGlobal(x.Map); g != nil {
						bad = append(bad, fmt.Sprintf("%s updates map %s (%s)", funcDisplayName(fn), g.Name(), posStr(w.Fset, x.Pos())))
					}
				case ssa.CallInstruction:
					// the ADDRESS of a package-level variable (or of a field / element inside it) handed
					// to a callee: the callee can write the variable (sync/atomic, sync.Map, sync.Once,
					// a method with pointer receiver). Loads are not followed: a pointer stored in a
					// global is a value, the object behind it is covered by the store rules above.
					c := x.Common()
					args := append([]ssa.Value{}, c.Args...)
					if c.IsInvoke() {
						args = append(args, c.Value)
					}
					for _, a := range args {
						if g := addrInGlobal(a); g != nil {
							bad = append(bad, fmt.Sprintf("%s passes the address of package-level %s to %s (%s)", funcDisplayName(fn), g.Name(), calleeName(c), posStr(w.Fset, x.Pos())))
						}
					}
				}
			}
		}
	}
	sort.Strings(bad)
	o := censusObl(r.Prop, r.Prop+"/tree/globals#1", "frame", "", "no lint-reachable function (outside initialisers) stores to a package-level variable or into a map/array held by one", len(bad) == 0, strings.Join(bad, "; "))
	o.Solver = "frame-checker"
	return []*Obligation{o}
}

// addrInGlobal: v is the address of a package-level variable or of a field / array element inside
// one (no load on the way).
func addrInGlobal(v ssa.Value) *ssa.Global {
	for i := 0; i < 6; i++ {
		switch x := v.(type) {
		case *ssa.Global:
			return x
		case *ssa.FieldAddr:
			v = x.X
		case *ssa.IndexAddr:
			if _, isArr := x.X.Type().Underlying().(*types.Pointer); !isArr {
				return nil // indexing a slice loads its header first
			}
			v = x.X
		default:
			return nil
		}
	}
	return nil
}

// censusSync: no goroutines, channel operations or write locks anywhere in the module outside
// cmd/; every RLock is paired with a deferred RUnlock in the same function.
func censusSync(w *World, r *Report) []*Obligation {
	var bad []string
	for fn := range allFunctions(w) {
		if fn.Blocks == nil || strings.Contains(fn.String(), "/cmd/") || fn.Synthetic != "" {
			continue // (wrappers for the promoted RWMutex methods are synthetic and never called by the library)
		}
		rlocks, runlocks := 0, 0
		for _, b := range fn.Blocks {
			for _, in := range b.Instrs {
				switch x := in.(type) {
				case *ssa.Go:
					bad = append(bad, funcDisplayName(fn)+" starts a goroutine")
				case *ssa.Send, *ssa.Select, *ssa.MakeChan:
					bad = append(bad, funcDisplayName(fn)+" uses a channel")
				case *ssa.UnOp:
					if x.Op == token.ARROW {
						bad = append(bad, funcDisplayName(fn)+" receives from a channel")
					}
				case *ssa.Call:
					if c := x.Call.StaticCallee(); c != nil {
						switch c.String() {
						case "(*sync.RWMutex).Lock", "(*sync.Mutex).Lock":
							bad = append(bad, funcDisplayName(fn)+" takes a write lock")
						case "(*sync.RWMutex).RLock":
							rlocks++
						}
					}
				case *ssa.Defer:
					if c := x.Call.StaticCallee(); c != nil && c.String() == "(*sync.RWMutex).RUnlock" {
						runlocks++
					}
				}
			}
		}
		if rlocks != runlocks {
			bad = append(bad, fmt.Sprintf("%s: %d RLock vs %d deferred RUnlock", funcDisplayName(fn), rlocks, runlocks))
		}
	}
	sort.Strings(bad)
	o := censusObl(r.Prop, r.Prop+"/tree/sync#1", "frame", "", "no goroutine, channel or write lock in the library; every RLock has a deferred RUnlock in the same function (read locks cannot block when no writer lock is ever taken)", len(bad) == 0, strings.Join(bad, "; "))
	o.Solver = "frame-checker"
	return []*Obligation{o}
}

// ---------- F4: iteration order ----------

type mapLoop struct {
	fn     *ssa.Function
	rng    *ssa.Range
	next   *ssa.Next
	blocks map[*ssa.BasicBlock]bool
}

func findMapLoops(fn *ssa.Function) []*mapLoop {
	var out []*mapLoop
	for _, b := range fn.Blocks {
		for _, in := range b.Instrs {
			nx, ok := in.(*ssa.Next)
			if !ok {
				continue
			}
			rg, ok := nx.Iter.(*ssa.Range)
			if !ok {
				continue
			}
			if _, isMap := rg.X.Type().Underlying().(*types.Map); !isMap {
				continue
			}
			ml := &mapLoop{fn: fn, rng: rg, next: nx, blocks: map[*ssa.BasicBlock]bool{}}
			// natural loop of the header b
			for _, p := range b.Preds {
				if b.Dominates(p) {
					stack := []*ssa.BasicBlock{p}
					ml.blocks[b] = true
					for len(stack) > 0 {
						x := stack[len(stack)-1]
						stack = stack[:len(stack)-1]
						if ml.blocks[x] {
							continue
						}
						ml.blocks[x] = true
						stack = append(stack, x.Preds...)
					}
				}
			}
			out = append(out, ml)
		}
	}
	return out
}

// orderProblems checks one map-range loop against the order-insensitivity rules.
func (w *World) orderProblems(ml *mapLoop, unorderedReturn map[*ssa.Function]bool) []string {
	var probs []string
	where := func(in ssa.Instruction) string { return posStr(w.Fset, in.Pos()) }
	// early exits: blocks outside the loop that are dominated by a body block (not by the header
	// alone): code that runs because of the entry being visited, e.g. `return fail(key)`
	scope := map[*ssa.BasicBlock]bool{}
	for b := range ml.blocks {
		scope[b] = true
	}
	for _, b := range ml.fn.Blocks {
		if ml.blocks[b] {
			continue
		}
		for body := range ml.blocks {
			if body != ml.next.Block() && body.Dominates(b) {
				scope[b] = true
			}
		}
	}
	// taint: values derived from the iteration key/value
	taint := map[ssa.Value]bool{ml.next: true}
	changed := true
	for changed {
		changed = false
		for b := range scope {
			for _, in := range b.Instrs {
				// a tainted value stored into a local object taints the object (varargs arrays, literals)
				if st, isStore := in.(*ssa.Store); isStore && taint[st.Val] {
					if al, ok := rootAlloc(st.Addr); ok && !taint[al] {
						taint[al] = true
						changed = true
					}
				}
				v, ok := in.(ssa.Value)
				if !ok || taint[v] {
					continue
				}
				for _, op := range in.Operands(nil) {
					if *op != nil && taint[*op] {
						taint[v] = true
						changed = true
						break
					}
				}
			}
		}
	}
	isCounter := func(phi *ssa.Phi) bool {
		for _, e := range phi.Edges {
			switch x := e.(type) {
			case *ssa.Const:
			case *ssa.BinOp:
				if !(x.Op == token.ADD && (x.X == phi || isPhiChain(x.X, phi))) {
					return false
				}
				if _, ok := x.Y.(*ssa.Const); !ok {
					return false
				}
			case *ssa.Phi:
			default:
				return false
			}
		}
		return true
	}
	var accumulators []ssa.Value
	for b := range scope {
		for _, in := range b.Instrs {
			switch x := in.(type) {
			case *ssa.Phi:
				if !ml.blocks[b] {
					continue
				}
				if !taint[x] {
					continue
				}
				if _, isSlice := x.Type().Underlying().(*types.Slice); isSlice {
					accumulators = append(accumulators, x)
					continue
				}
				if isCounter(x) {
					continue
				}
				if x.Block() == ml.next.Block() || len(ml.blocks) > 0 {
					probs = append(probs, fmt.Sprintf("loop-carried value %s depends on the iteration order (%s)", x.Name(), where(x)))
				}
			case *ssa.Store:
				if taint[x.Val] || taint[x.Addr] {
					// stores into objects allocated inside the loop body are per-iteration
					if al, ok := rootAlloc(x.Addr); ok && ml.blocks[al.Block()] {
						continue
					}
					probs = append(probs, fmt.Sprintf("store of an iteration-dependent value (%s)", where(x)))
				}
			case *ssa.MapUpdate:
				if taint[x.Value] {
					if _, isConst := x.Value.(*ssa.Const); !isConst && !isIterKey(x.Key, ml.next) {
						probs = append(probs, fmt.Sprintf("map update with an iteration-dependent value under a key that is not the iteration key (%s)", where(x)))
					}
				}
			case *ssa.Return:
				for _, res := range x.Results {
					if taint[res] {
						probs = append(probs, fmt.Sprintf("result returned from inside the loop depends on which entry is visited first (%s)", where(x)))
						break
					}
				}
			}
		}
	}
	// accumulators built in the loop must be sorted (or only measured) before any other use
	for _, acc := range accumulators {
		probs = append(probs, w.unorderedUses(acc, ml, unorderedReturn)...)
	}
	return probs
}

func isPhiChain(v ssa.Value, phi *ssa.Phi) bool {
	p, ok := v.(*ssa.Phi)
	if !ok {
		return false
	}
	if p == phi {
		return true
	}
	for _, e := range p.Edges {
		if e == phi {
			return true
		}
	}
	return false
}

func isIterKey(v ssa.Value, nx *ssa.Next) bool {
	ex, ok := v.(*ssa.Extract)
	return ok && ex.Tuple == nx && ex.Index == 1
}

func rootAlloc(v ssa.Value) (*ssa.Alloc, bool) {
	for i := 0; i < 6; i++ {
		switch x := v.(type) {
		case *ssa.Alloc:
			return x, true
		case *ssa.FieldAddr:
			v = x.X
		case *ssa.IndexAddr:
			v = x.X
		default:
			return nil, false
		}
	}
	return nil, false
}

// unorderedUses follows a slice accumulated in map order; it may only reach len(), sort.*, a
// further append into itself, a phi, or be returned from a function recorded as "unordered result".
func (w *World) unorderedUses(acc ssa.Value, ml *mapLoop, unorderedReturn map[*ssa.Function]bool) []string {
	var probs []string
	seen := map[ssa.Value]bool{}
	var visit func(v ssa.Value)
	visit = func(v ssa.Value) {
		if seen[v] {
			return
		}
		seen[v] = true
		refs := v.Referrers()
		if refs == nil {
			return
		}
		sorted := false
		// a sort.* call on the value orders it for every later use (sorting is in place)
		for _, r := range *refs {
			if c, ok := r.(*ssa.Call); ok {
				if callee := c.Call.StaticCallee(); callee != nil && strings.HasPrefix(callee.String(), "sort.") {
					sorted = true
				}
			}
		}
		for _, r := range *refs {
			switch x := r.(type) {
			case *ssa.Phi:
				visit(x)
			case *ssa.DebugRef:
			case *ssa.Call:
				if b, ok := x.Call.Value.(*ssa.Builtin); ok {
					switch b.Name() {
					case "len", "cap":
						continue
					case "append":
						if len(x.Call.Args) > 0 && x.Call.Args[0] == v {
							visit(x)
							continue
						}
					}
				}
				if callee := x.Call.StaticCallee(); callee != nil && strings.HasPrefix(callee.String(), "sort.") {
					continue
				}
				if !sorted {
					probs = append(probs, fmt.Sprintf("slice built in map-iteration order is used unsorted by %s (%s)", calleeName(&x.Call), posStr(w.Fset, x.Pos())))
				}
			case *ssa.Return:
				if !sorted {
					unorderedReturn[ml.fn] = true
				}
			case *ssa.MakeInterface, *ssa.Slice, *ssa.IndexAddr, *ssa.Store, *ssa.ChangeType:
				if !sorted {
					if vv, ok := r.(ssa.Value); ok {
						// e.g. boxed into an interface for fmt.Sprintf
						probs = append(probs, fmt.Sprintf("slice built in map-iteration order escapes unsorted via %T (%s)", vv, posStr(w.Fset, r.Pos())))
					} else {
						probs = append(probs, fmt.Sprintf("slice built in map-iteration order is stored unsorted (%s)", posStr(w.Fset, r.Pos())))
					}
				}
			}
		}
	}
	visit(acc)
	return probs
}

func calleeName(c *ssa.CallCommon) string {
	if f := c.StaticCallee(); f != nil {
		return f.String()
	}
	if c.IsInvoke() {
		return c.Method.Name()
	}
	return c.Value.Name()
}

func censusMapOrder(w *World, r *Report) []*Obligation {
	reach := w.lintReachable()
	unordered := map[*ssa.Function]bool{}
	type site struct {
		name  string
		probs []string
		src   string
	}
	var sites []site
	var fns []*ssa.Function
	for fn := range reach {
		fns = append(fns, fn)
	}
	sort.Slice(fns, func(i, j int) bool { return fns[i].String() < fns[j].String() })
	for _, fn := range fns {
		if strings.HasPrefix(fn.Name(), "init") {
			continue
		}
		for _, ml := range findMapLoops(fn) {
			p := w.orderProblems(ml, unordered)
			sites = append(sites, site{funcDisplayName(fn), p, posStr(w.Fset, ml.rng.Pos())})
		}
	}
	// callers of functions that return a slice in map order must sort it before use
	for fn := range unordered {
		for caller := range reach {
			for _, b := range caller.Blocks {
				for _, in := range b.Instrs {
					call, ok := in.(*ssa.Call)
					if !ok || call.Call.StaticCallee() != fn {
						continue
					}
					ml := &mapLoop{fn: caller}
					p := w.unorderedUses(call, ml, map[*ssa.Function]bool{})
					if len(p) > 0 {
						sites = append(sites, site{funcDisplayName(caller) + " (result of " + funcDisplayName(fn) + ")", p, posStr(w.Fset, call.Pos())})
					}
				}
			}
		}
	}
	var out []*Obligation
	cnt := map[string]int{}
	for _, s := range sites {
		cnt[s.name]++
		o := censusObl("C05", fmt.Sprintf("C05/maporder/%s#%d", strings.ReplaceAll(s.name, "/", "."), cnt[s.name]), "frame", s.src,
			"range over a map feeds only order-insensitive sinks (set/map building, counters, slices that are sorted before use, results that do not depend on the visited entry)", len(s.probs) == 0, strings.Join(s.probs, "; "))
		o.Solver = "frame-checker"
		out = append(out, o)
	}
	r.Extra["map_range_sites"] = len(sites)
	// the claim is about the tree, not about the sites that existed when the ledger was written: a
	// new range over a map (or a new caller of a function that returns a slice in map order) that is
	// order-sensitive fails this obligation
	var badSites []string
	for _, s := range sites {
		if len(s.probs) > 0 {
			badSites = append(badSites, s.name+" ("+s.src+"): "+strings.Join(s.probs, "; "))
		}
	}
	all := censusObl("C05", "C05/tree/maporder#1", "frame", "", fmt.Sprintf("every range over a map in lint-reachable code (%d sites, callers of functions returning slices in map order included) feeds only order-insensitive sinks", len(sites)), len(badSites) == 0, strings.Join(badSites, " | "))
	all.Solver = "frame-checker"
	out = append(out, all)
	return out
}

// ---------- F3: read frame for C09 (signature independence) ----------

func init() {
	extraEngines["C09"] = append(extraEngines["C09"], censusSignatureReads)
}

func isX509Cert(t types.Type) bool {
	if pt, ok := t.(*types.Pointer); ok {
		t = pt.Elem()
	}
	n, ok := t.(*types.Named)
	return ok && n.Obj().Name() == "Certificate" && n.Obj().Pkg() != nil && strings.HasSuffix(n.Obj().Pkg().Path(), "zcrypto/x509")
}

// censusSignatureReads: in lint-reachable code the signature value of a certificate is only ever
// measured (len), fingerprints over the whole encoding are never read, SelfSigned is read only by
// util.IsSelfSigned, the complete encoding c.Raw only by the functions listed (with their
// assumed per-function contract) in the table c09_raw_readers, and the certificate is never
// handed whole to an external function other than the name-parsing accessors.
func censusSignatureReads(w *World, r *Report) []*Obligation {
	reach := w.lintReachable()
	rawOK := map[string]bool{}
	for _, l := range w.CS.Tables["c09_raw_readers"] {
		fs := strings.Fields(l)
		if len(fs) > 0 {
			rawOK[fs[0]] = true
		}
	}
	extOK := map[string]bool{"GetParsedDNSNames": true, "GetParsedSubjectCommonName": true}
	var sig, fp, self, raw, whole, rawflow []string
	nreads := 0
	for fn := range reach {
		for _, b := range fn.Blocks {
			for _, in := range b.Instrs {
				switch x := in.(type) {
				case *ssa.FieldAddr:
					if !isX509Cert(x.X.Type()) {
						continue
					}
					st := x.X.Type().Underlying().(*types.Pointer).Elem().Underlying().(*types.Struct)
					name := st.Field(x.Field).Name()
					nreads++
					where := fmt.Sprintf("%s (%s)", funcDisplayName(fn), posStr(w.Fset, x.Pos()))
					switch {
					case name == "Signature":
						for _, ld := range *x.Referrers() {
							u, ok := ld.(*ssa.UnOp)
							if !ok {
								if _, isDbg := ld.(*ssa.DebugRef); !isDbg {
									sig = append(sig, where+": address of Signature taken")
								}
								continue
							}
							for _, use := range *u.Referrers() {
								switch c := use.(type) {
								case *ssa.DebugRef:
								case *ssa.Call:
									if bi, ok := c.Call.Value.(*ssa.Builtin); ok && (bi.Name() == "len" || bi.Name() == "cap") {
										continue
									}
									sig = append(sig, where+": signature bytes passed to "+calleeName(&c.Call))
								default:
									sig = append(sig, fmt.Sprintf("%s: signature bytes used by %T", where, use))
								}
							}
						}
					case name == "FingerprintMD5" || name == "FingerprintSHA1" || name == "FingerprintSHA256" || name == "FingerprintNoCT" || name == "ValidSignature":
						fp = append(fp, where+": reads "+name)
					case name == "SelfSigned":
						if fn.Name() != "IsSelfSigned" {
							self = append(self, where)
						}
					case name == "Raw":
						if !rawOK[funcKeyQualified(fn)] {
							raw = append(raw, where)
						} else {
							// the listed readers were inspected as decoders: the complete encoding goes
							// into a cryptobyte.String that is walked by its methods, or into
							// asn1.Unmarshal - it is never sliced, indexed, compared or printed
							rawflow = append(rawflow, rawFlowProblems(w, fn, x)...)
						}
					}
				case *ssa.Call:
					callee := x.Call.StaticCallee()
					if callee == nil || callee.Blocks != nil {
						continue
					}
					args := x.Call.Args
					for i, a := range args {
						if isX509Cert(a.Type()) {
							if i == 0 && callee.Signature.Recv() != nil && extOK[callee.Name()] {
								continue
							}
							whole = append(whole, fmt.Sprintf("%s passes the certificate to %s (%s)", funcDisplayName(fn), callee.String(), posStr(w.Fset, x.Pos())))
						}
					}
				case *ssa.UnOp:
					// `cc := *c`: a copy of the whole struct; its fields are then read without a FieldAddr
					if x.Op == token.MUL && isX509Cert(x.X.Type()) {
						whole = append(whole, fmt.Sprintf("%s copies the whole certificate struct (%s)", funcDisplayName(fn), posStr(w.Fset, x.Pos())))
					}
				case *ssa.MakeInterface:
					if isX509Cert(x.X.Type()) {
						whole = append(whole, fmt.Sprintf("%s boxes the certificate into an interface (%s)", funcDisplayName(fn), posStr(w.Fset, x.Pos())))
					}
				}
			}
		}
	}
	r.Extra["certificate_field_accesses_scanned"] = nreads
	mk := func(name, note string, bad []string) *Obligation {
		sort.Strings(bad)
		o := censusObl("C09", "C09/tree/"+name+"#1", "frame", "", note, len(bad) == 0, strings.Join(bad, "; "))
		o.Solver = "frame-checker"
		return o
	}
	r.Trusted = append(r.Trusted,
		"parser: SelfSigned implies RawSubject == RawIssuer (zcrypto parseCertificate), so for non-self-issued certificates util.IsSelfSigned is false whatever the signature",
		"the functions in table c09_raw_readers depend on c.Raw only through tbsCertificate / signatureAlgorithm / successful decoding: checked structurally (obligation rawflow: the encoding and the certificate's content are walked only element by element with cryptobyte's ASN.1 methods, at most two elements are taken out of the content, or the whole is handed to asn1.Unmarshal); assumed: cryptobyte's element readers consume exactly one element, and asn1.Unmarshal's result is used without its signature field (by inspection of certExtensionInvalidDER)",
		"external accessors GetParsedDNSNames / GetParsedSubjectCommonName do not read the signature")
	return []*Obligation{
		mk("signature", "Certificate.Signature is read only as the operand of len/cap", sig),
		mk("fingerprints", "fingerprints over the complete encoding and ValidSignature are never read", fp),
		mk("selfsigned", "Certificate.SelfSigned is read only by util.IsSelfSigned", self),
		mk("raw", "Certificate.Raw is read only by the functions listed in table c09_raw_readers", raw),
		mk("rawflow", "in the listed readers the complete encoding is only handed to decoders (a cryptobyte.String walked element by element with its ASN.1 methods, asn1.Unmarshal): never read by octet count, sliced, indexed, compared, formatted or passed elsewhere", rawflow),
		mk("whole", "the certificate is never passed whole to an external function (other than the name-parsing accessors) nor boxed into an interface", whole),
	}
}

// rawFlowProblems: uses of the value loaded from &c.Raw (fa) inside a listed reader that are not
// "hand it to a decoder".
func rawFlowProblems(w *World, fn *ssa.Function, fa *ssa.FieldAddr) []string {
	var bad []string
	say := func(in ssa.Instruction, what string) {
		bad = append(bad, fmt.Sprintf("%s (%s): %s", funcDisplayName(fn), posStr(w.Fset, in.Pos()), what))
	}
	isDecoderCall := func(c *ssa.CallCommon) bool {
		callee := c.StaticCallee()
		if callee == nil {
			return false
		}
		n := callee.String()
		if strings.Contains(n, "cryptobyte.String)") {
			// element-wise walking only: ReadASN1*, SkipASN1, SkipOptionalASN1, PeekASN1Tag, Empty. The
			// length-driven readers (ReadBytes, Skip, CopyBytes, ReadUint*) take octets wherever
			// they are, element boundaries or not
			return strings.Contains(callee.Name(), "ASN1") || callee.Name() == "Empty"
		}
		return strings.HasSuffix(n, "asn1.Unmarshal") || strings.HasSuffix(n, "asn1.UnmarshalWithParams")
	}
	var follow func(v ssa.Value, depth int)
	// checkVar: a local cryptobyte.String that holds (part of) the encoding - the variable the
	// encoding was converted into, and every variable a decoder method filled from such a variable
	// Containers are the variable the encoding was converted into (depth 0: the Certificate TLV) and
	// the variable its content was read into (depth 1: tbsCertificate, signatureAlgorithm,
	// signatureValue). They may only be walked with the ASN.1 methods, and at most two elements may
	// be taken out of the depth-1 container - the third one is the signature. What was taken out
	// (depth 2: tbsCertificate, signatureAlgorithm) is free of signature octets and unrestricted.
	seenVar := map[*ssa.Alloc]bool{}
	var checkVar func(al *ssa.Alloc, depth int)
	checkVar = func(al *ssa.Alloc, depth int) {
		if seenVar[al] || depth >= 2 {
			return
		}
		seenVar[al] = true
		reads := 0
		for _, r2 := range *al.Referrers() {
			switch y := r2.(type) {
			case *ssa.DebugRef, *ssa.Store:
			case *ssa.Call:
				if !isDecoderCall(&y.Call) {
					say(y, "a container of the signature is passed to "+calleeName(&y.Call))
					continue
				}
				if len(y.Call.Args) > 0 && y.Call.Args[0] == ssa.Value(al) && !strings.HasPrefix(y.Call.StaticCallee().Name(), "Peek") && y.Call.StaticCallee().Name() != "Empty" {
					reads++
				}
				// out-parameters of the decoder receive parts of the container
				for _, a := range y.Call.Args {
					if out, ok := a.(*ssa.Alloc); ok && out != al {
						if pt, ok := out.Type().Underlying().(*types.Pointer); ok && strings.Contains(pt.Elem().String(), "cryptobyte.String") {
							checkVar(out, depth+1)
						}
					}
				}
			case *ssa.UnOp:
				follow(y, 1)
			default:
				say(r2, fmt.Sprintf("a container of the signature is used by %T", r2))
			}
		}
		if depth == 1 && reads > 2 {
			say(al, fmt.Sprintf("%d elements are taken out of the certificate's content; the third one is the signature", reads))
		}
	}
	follow = func(v ssa.Value, depth int) {
		if v.Referrers() == nil || depth > 6 {
			return
		}
		for _, r := range *v.Referrers() {
			switch x := r.(type) {
			case *ssa.DebugRef:
			case *ssa.ChangeType: // cryptobyte.String(c.Raw)
				follow(x, depth+1)
			case *ssa.Store:
				// into a local (the `input` variable): its address is then only used by decoder methods / loads
				if al, ok := x.Addr.(*ssa.Alloc); ok && x.Val == v {
					checkVar(al, 0)
				} else {
					say(x, "the encoding is stored outside a local decoder variable")
				}
			case *ssa.Call:
				if b, ok := x.Call.Value.(*ssa.Builtin); ok && (b.Name() == "len" || b.Name() == "cap") {
					continue
				}
				if !isDecoderCall(&x.Call) {
					say(x, "the encoding is passed to "+calleeName(&x.Call))
				}
			case *ssa.Phi:
				follow(x, depth+1)
			default:
				say(r, fmt.Sprintf("the encoding is used by %T (sliced, indexed, boxed or compared)", r))
			}
		}
	}
	for _, r := range *fa.Referrers() {
		switch x := r.(type) {
		case *ssa.DebugRef:
		case *ssa.UnOp:
			follow(x, 0)
		default:
			say(r, "the address of Raw is taken")
		}
	}
	return bad
}

func funcKeyQualified(fn *ssa.Function) string {
	p := ""
	if fn.Pkg != nil {
		p = fn.Pkg.Pkg.Name() + "."
	}
	return p + funcKey(fn)
}
