package main

// Contract files: Gobra-style //@ lines in comment-only Go files.
//
//   //@ func (*CertificateLint).CheckEffective [C03]
//   //@   requires l != nil && c != nil
//   //@   ensures  result == inWindow(l.EffectiveDate, l.IneffectiveDate, c.NotBefore)
//   //@ spec inWindow(e time.Time, i time.Time, t time.Time) bool = ...
//   //@ interface CertificateLintInterface.Execute
//   //@ lemma name: expr
//
// A line that does not start with a clause keyword continues the previous clause.
// " -- " starts a trailing remark.

import (
	"bufio"
	"fmt"
	"os"
	"path/filepath"
	"regexp"
	"strings"
)

type Clause struct {
	Kind  string   // requires ensures invariant assigns decreases let ...
	Props []string // property tags (empty = all props of the owner)
	Loop  int      // for loop clauses (1-based ordinal), else 0
	Name  string   // for let / named clauses
	Text  string
	File  string
	Line  int
}

type Contract struct {
	Closure bool // verified in this run only because another unit of the property applies this contract at a call site
	Target   string // "func checkEffective", "func (*T).M", "interface I.M", "field T.F", "extern time.Time.Before"
	Kind     string // func | interface | field | extern
	Key      string // normalized key: "checkEffective", "(*T).M", "I.M", "T.F", "time.Time.Before"
	Pkg      string // package path the contract file belongs to ("" for externals)
	Props    []string
	Clauses  []*Clause
	Flags    map[string]bool // nopanic, maypanic, pure, opaque, inline, trusted
	Mode     string          // "", "bv"
	File     string
	Line     int
	Used     bool
}

type SpecFunc struct {
	Name   string
	Params []SpecParam
	Ret    string // Go type expression text
	Body   string // "" => uninterpreted
	Pkg    string
	File   string
	Line   int
}

type SpecParam struct{ Name, Type string }

type Lemma struct {
	Params []SpecParam // free variables of a parameterised lemma: lemma name(p int, q int): ...
	Inst  string // axiom instantiated at every ground application of this spec function
	Axiom bool
	Name  string
	Props []string
	Text  string
	Pkg   string
	File  string
	Line  int
}

type ContractSet struct {
	Contracts []*Contract
	ByKey     map[string]*Contract // pkgpath + "::" + key
	Specs     map[string]*SpecFunc // pkgpath + "::" + name  (and "::"+name for global)
	Lemmas    []*Lemma
	Tables    map[string][]string // named tables (e.g. pairs), raw lines
	Files     []string
	TraceDecls []*Trace
	TypeInvs  map[string][]*TypeInv // Go type string -> assumed invariants of values of that type (parser invariants)
	PkgInvs   []*PkgInv
}

// TypeInv: an assumed invariant of every value of a (foreign) type that the parsers build:
//   typeinv *crypto/dsa.PublicKey (k): k.P != nil && k.Q != nil
// Only accepted in /verif/spec/*.contracts (never in /repo): it describes code that is not verified.
type TypeInv struct {
	Type, Var, Text string
	File            string
	Line            int
}

// PkgInv: an invariant over package-level state of a module package:
//   pkginv rnNonNil() by init@ip.go
// established by the named initialiser (whose contract carries the invariant as an ensures clause
// and is verified under the same property) or by a named census, and stable because nothing
// outside package initialisation writes the state it mentions (census obligation).
type PkgInv struct {
	Name, Text, By string
	Pkg            string
	Props          []string
	File           string
	Line           int
}

var clauseKeywords = map[string]bool{
	"requires": true, "ensures": true, "loop": true, "assigns": true, "reads": true,
	"nopanic": true, "maypanic": true, "pure": true, "opaque": true, "inline": true, "trusted": true, "heapfree": true, "overflow": true, "loopframe": true,
	"let": true, "mode": true, "atcall": true, "assume": true, "havoc": true, "exceptional": true,
}

var headRe = regexp.MustCompile(`^(func|interface|field|extern|spec|lemma|table|axiom|trace|typeinv|pkginv)\b`)
var propsRe = regexp.MustCompile(`\[(C[0-9]{2}(?:[ ,]+C[0-9]{2})*)\]`)

func stripRemark(s string) string {
	if i := strings.Index(s, " -- "); i >= 0 {
		s = s[:i]
	}
	if strings.HasPrefix(strings.TrimSpace(s), "-- ") {
		return ""
	}
	return strings.TrimRight(s, " \t")
}

func parseProps(s string) ([]string, string) {
	m := propsRe.FindStringSubmatchIndex(s)
	if m == nil {
		return nil, s
	}
	inner := s[m[2]:m[3]]
	rest := strings.TrimSpace(s[:m[0]] + s[m[1]:])
	var ps []string
	for _, p := range strings.FieldsFunc(inner, func(r rune) bool { return r == ' ' || r == ',' }) {
		ps = append(ps, p)
	}
	return ps, rest
}

// LoadContractFile parses one file. pkgPath is "" for the external contract file.
func (cs *ContractSet) LoadContractFile(path, pkgPath string) error {
	f, err := os.Open(path)
	if err != nil {
		return err
	}
	defer f.Close()
	cs.Files = append(cs.Files, path)
	sc := bufio.NewScanner(f)
	sc.Buffer(make([]byte, 1<<20), 1<<20)
	var cur *Contract
	var curClause *Clause
	var curSpec *SpecFunc
	var curLemma *Lemma
	var curTable string
	var curTI *TypeInv
	ln := 0
	for sc.Scan() {
		ln++
		line := sc.Text()
		t := strings.TrimSpace(line)
		var body string
		if strings.HasPrefix(t, "//@") {
			body = t[3:]
		} else if pkgPath == "" && !strings.HasPrefix(t, "//") && !strings.HasPrefix(t, "#") {
			body = line // external contract file: plain lines
		} else {
			continue
		}
		body = stripRemark(body)
		tb := strings.TrimSpace(body)
		if tb == "" {
			continue
		}
		if hm := headRe.FindString(tb); hm != "" {
			cur, curClause, curSpec, curLemma, curTable, curTI = nil, nil, nil, nil, "", nil
			rest := strings.TrimSpace(tb[len(hm):])
			switch hm {
			case "func", "interface", "field", "extern":
				props, rest2 := parseProps(rest)
				c := &Contract{Target: hm + " " + rest2, Kind: hm, Key: strings.TrimSpace(rest2), Pkg: pkgPath, Props: props, Flags: map[string]bool{}, File: path, Line: ln}
				cs.Contracts = append(cs.Contracts, c)
				k := pkgPath + "::" + c.Key
				if hm == "extern" {
					k = "::" + c.Key
				}
				if old, dup := cs.ByKey[k]; dup {
					return fmt.Errorf("%s:%d: duplicate contract for %s (first at line %d)", path, ln, c.Key, old.Line)
				}
				cs.ByKey[k] = c
				cur = c
			case "spec":
				sp, err := parseSpecHead(rest)
				if err != nil {
					return fmt.Errorf("%s:%d: %v", path, ln, err)
				}
				sp.Pkg, sp.File, sp.Line = pkgPath, path, ln
				cs.Specs[pkgPath+"::"+sp.Name] = sp
				if _, ok := cs.Specs["::"+sp.Name]; !ok {
					cs.Specs["::"+sp.Name] = sp
				}
				curSpec = sp
			case "lemma", "axiom":
				props, rest2 := parseProps(rest)
				i := strings.Index(rest2, ":")
				if i < 0 {
					return fmt.Errorf("%s:%d: lemma needs 'name: expr'", path, ln)
				}
				lm := &Lemma{Axiom: hm == "axiom", Name: strings.TrimSpace(rest2[:i]), Props: props, Text: strings.TrimSpace(rest2[i+1:]), Pkg: pkgPath, File: path, Line: ln}
				if fs := strings.Fields(lm.Name); len(fs) == 3 && fs[1] == "inst" {
					lm.Name, lm.Inst = fs[0], fs[2]
				}
				if k := strings.Index(lm.Name, "("); k > 0 && strings.HasSuffix(lm.Name, ")") {
					for _, p := range strings.Split(lm.Name[k+1:len(lm.Name)-1], ",") {
						pf := strings.Fields(strings.TrimSpace(p))
						if len(pf) == 2 {
							lm.Params = append(lm.Params, SpecParam{pf[0], pf[1]})
						}
					}
					lm.Name = lm.Name[:k]
				}
				cs.Lemmas = append(cs.Lemmas, lm)
				curLemma = lm
			case "trace":
				// trace <kind> <key> as <Tag>
				fs := strings.Fields(rest)
				if len(fs) < 4 || fs[len(fs)-2] != "as" {
					return fmt.Errorf("%s:%d: trace <kind> <key> as <Tag>", path, ln)
				}
				cs.TraceDecls = append(cs.TraceDecls, &Trace{Kind: fs[0], Key: strings.Join(fs[1:len(fs)-2], " "), Pkg: pkgPath, Tag: fs[len(fs)-1]})
			case "typeinv":
				// typeinv <type> (x): expr
				if pkgPath != "" {
					return fmt.Errorf("%s:%d: typeinv (an assumption about foreign code) is only accepted in /verif/spec", path, ln)
				}
				i := strings.Index(rest, "):")
				j := strings.LastIndex(rest[:maxI(i, 0)], "(")
				if i < 0 || j < 0 {
					return fmt.Errorf("%s:%d: typeinv <type> (x): expr", path, ln)
				}
				ti := &TypeInv{Type: strings.TrimSpace(rest[:j]), Var: strings.TrimSpace(rest[j+1 : i]), Text: strings.TrimSpace(rest[i+2:]), File: path, Line: ln}
				if cs.TypeInvs == nil {
					cs.TypeInvs = map[string][]*TypeInv{}
				}
				cs.TypeInvs[ti.Type] = append(cs.TypeInvs[ti.Type], ti)
				curTI = ti
			case "pkginv":
				// pkginv <expr> by <initialiser | census:name>
				props, rest2 := parseProps(rest)
				i := strings.LastIndex(rest2, " by ")
				if i < 0 || pkgPath == "" {
					return fmt.Errorf("%s:%d: pkginv <expr> by <establisher> (in a package contract file)", path, ln)
				}
				cs.PkgInvs = append(cs.PkgInvs, &PkgInv{Name: strings.TrimSpace(rest2[:i]), Text: strings.TrimSpace(rest2[:i]), By: strings.TrimSpace(rest2[i+4:]), Pkg: pkgPath, Props: props, File: path, Line: ln})
			case "table":
				curTable = strings.TrimSpace(rest)
				if cs.Tables[curTable] == nil {
					cs.Tables[curTable] = []string{}
				}
			}
			continue
		}
		first := tb
		if i := strings.IndexAny(tb, " \t["); i >= 0 {
			first = tb[:i]
		}
		if curTable != "" {
			cs.Tables[curTable] = append(cs.Tables[curTable], tb)
			continue
		}
		if cur != nil && clauseKeywords[first] {
			rest := strings.TrimSpace(tb[len(first):])
			switch first {
			case "nopanic", "maypanic", "pure", "opaque", "inline", "trusted", "heapfree", "overflow", "loopframe":
				cur.Flags[first] = true
				// several flags may share a line ("pure heapfree")
				for _, w := range strings.Fields(rest) {
					switch w {
					case "nopanic", "maypanic", "pure", "opaque", "inline", "trusted", "heapfree", "overflow", "loopframe":
						cur.Flags[w] = true
					default:
						return fmt.Errorf("%s:%d: unexpected %q after flag %s", path, ln, w, first)
					}
				}
				curClause = nil
				continue
			case "mode":
				cur.Mode = rest
				curClause = nil
				continue
			}
			cl := &Clause{Kind: first, File: path, Line: ln}
			if first == "loop" {
				// loop N invariant expr
				var n int
				var kind string
				parts := strings.Fields(rest)
				if len(parts) < 2 {
					return fmt.Errorf("%s:%d: bad loop clause", path, ln)
				}
				fmt.Sscanf(parts[0], "%d", &n)
				kind = parts[1]
				cl.Loop = n
				cl.Kind = kind // invariant | decreases | assigns
				rest = strings.TrimSpace(strings.TrimPrefix(strings.TrimSpace(strings.TrimPrefix(rest, parts[0])), parts[1]))
			}
			if first == "let" {
				i := strings.Index(rest, "=")
				if i < 0 {
					return fmt.Errorf("%s:%d: let needs name = expr", path, ln)
				}
				cl.Name = strings.TrimSpace(rest[:i])
				rest = strings.TrimSpace(rest[i+1:])
			}
			props, rest2 := parsePropsPrefix(rest)
			cl.Props = props
			cl.Text = rest2
			cur.Clauses = append(cur.Clauses, cl)
			curClause = cl
			continue
		}
		// continuation
		switch {
		case curClause != nil:
			curClause.Text += " " + tb
		case curSpec != nil:
			curSpec.Body += " " + tb
		case curTI != nil:
			curTI.Text += " " + tb
		case curLemma != nil:
			curLemma.Text += " " + tb
		default:
			return fmt.Errorf("%s:%d: unexpected contract line %q", path, ln, tb)
		}
	}
	return sc.Err()
}

// parsePropsPrefix accepts an optional leading [C01 C02] tag.
func parsePropsPrefix(s string) ([]string, string) {
	s = strings.TrimSpace(s)
	if strings.HasPrefix(s, "[") {
		if j := strings.Index(s, "]"); j > 0 {
			inner := s[1:j]
			ok := true
			for _, c := range inner {
				if !(c >= 'A' && c <= 'Z' || c >= '0' && c <= '9' || c == ' ' || c == ',') {
					ok = false
				}
			}
			if ok {
				ps := strings.FieldsFunc(inner, func(r rune) bool { return r == ' ' || r == ',' })
				return ps, strings.TrimSpace(s[j+1:])
			}
		}
	}
	return nil, s
}

var specHeadRe = regexp.MustCompile(`^(\w+)\s*\(([^)]*)\)\s*([^=]*?)\s*(=\s*(.*))?$`)

func parseSpecHead(s string) (*SpecFunc, error) {
	m := specHeadRe.FindStringSubmatch(s)
	if m == nil {
		return nil, fmt.Errorf("bad spec head %q", s)
	}
	sp := &SpecFunc{Name: m[1], Ret: strings.TrimSpace(m[3]), Body: strings.TrimSpace(m[5])}
	if strings.TrimSpace(m[2]) != "" {
		for _, p := range strings.Split(m[2], ",") {
			fs := strings.Fields(strings.TrimSpace(p))
			if len(fs) != 2 {
				return nil, fmt.Errorf("bad spec param %q", p)
			}
			sp.Params = append(sp.Params, SpecParam{fs[0], fs[1]})
		}
	}
	return sp, nil
}

func NewContractSet() *ContractSet {
	return &ContractSet{ByKey: map[string]*Contract{}, Specs: map[string]*SpecFunc{}, Tables: map[string][]string{}}
}

// LoadRepoContracts loads every zz_verif_contracts*.go under root (module dir).
func (cs *ContractSet) LoadRepoContracts(root, modPath string) error {
	return filepath.Walk(root, func(p string, info os.FileInfo, err error) error {
		if err != nil {
			return nil
		}
		if info.IsDir() {
			if info.Name() == "testdata" || info.Name() == ".git" {
				return filepath.SkipDir
			}
			return nil
		}
		if strings.HasPrefix(info.Name(), "zz_verif_contracts") && strings.HasSuffix(info.Name(), ".go") {
			rel, _ := filepath.Rel(root, filepath.Dir(p))
			pkg := modPath
			if rel != "." {
				pkg = modPath + "/" + filepath.ToSlash(rel)
			}
			return cs.LoadContractFile(p, pkg)
		}
		return nil
	})
}

func (c *Contract) HasProp(p string) bool {
	if p == "" {
		return true
	}
	for _, q := range c.Props {
		if q == p {
			return true
		}
	}
	return false
}

func (cl *Clause) ForProp(owner *Contract, p string) bool {
	if p == "" || len(cl.Props) == 0 {
		return true
	}
	if owner != nil && owner.Closure && cl.Kind != "assume" {
		// verified because a unit of this property relies on the contract (callers assume every
		// ensures clause whatever its tag): all of it
		return true
	}
	for _, q := range cl.Props {
		if q == p {
			return true
		}
	}
	return false
}

func (c *Contract) ClausesOf(kind string) []*Clause {
	var out []*Clause
	for _, cl := range c.Clauses {
		if cl.Kind == kind && cl.Loop == 0 {
			out = append(out, cl)
		}
	}
	return out
}

func (c *Contract) LoopClauses(n int, kind string) []*Clause {
	var out []*Clause
	for _, cl := range c.Clauses {
		if cl.Kind == kind && cl.Loop == n {
			out = append(out, cl)
		}
	}
	return out
}

func maxI(a, b int) int {
	if a > b {
		return a
	}
	return b
}
