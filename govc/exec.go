package main

// Symbolic execution of go/ssa functions into a passive SMT script:
// loops are cut at their headers (invariants from the contract), the remaining
// DAG is encoded with block reachability predicates and ite-merged heaps.

import (
	"fmt"
	"go/constant"
	"go/token"
	"go/types"
	"os"
	"path/filepath"
	"sort"
	"strings"

	"golang.org/x/tools/go/ssa"
)

// Frame is one activation (the function under contract, or an inlined callee).
type mapStep struct{ old, key, ok string }

type Frame struct {
	u        *Unit
	fn       *ssa.Function
	contract *Contract
	curFn    Val // function value of the field call being applied (fnval in field contracts)
	mapSteps map[string]mapStep // visited-set term after a map-range step -> what the step added
	pendingCall *ssa.CallCommon // the external call being abstracted (abstractCall's fallback needs its operands)
	vals     map[ssa.Value]Val
	endCur   map[int]string // path condition at end of block
	endHeap  map[int]*Heap
	reach    map[int]string
	entryHeap *Heap
	entryCur string
	args     []Val
	depth    int
	top      bool // the function under contract itself
	fname    string
	// results
	retConds []string
	retVals  [][]Val
	retHeaps []*Heap
	// exceptional exits (panics)
	panConds []string
	panHeaps []*Heap
	// loops
	backEdges map[[2]int]bool
	loopOrd   map[int]int        // header block index -> ordinal (1-based, source order)
	loopInfo  map[int]*loopState
	defers    []deferred
	recoverVal string // value recover() returns in this activation ("" = not in a deferred call)
	localRefs []string
	localIfaces map[string]Val // interface values that box a pointer to a variable of this frame
	escaped  map[ssa.Value]bool
	allocRefs map[ssa.Value]string
	bounded  int // unroll bound for loops without invariant (0 = none)
	inlineResults []Val
	nonNil   map[ssa.Value]*ssa.BasicBlock
	frame    *frameSpec
	callCount map[string]int
	frameExtra string
	// iteration mode (commute obligations): the header is entered with given phi values
	iterHeader *ssa.BasicBlock
	iterPhis   map[*ssa.Phi]Val
	iterCont   []iterCont
	summarise  bool                // inner loops become deterministic summaries of their live-in values
	edgeOver   map[[2]int]string   // edge conditions fixed by a loop summary
	summarised map[int]bool
	cloAlts    map[ssa.Value][]cloAlt // function-typed phis whose incoming values are closures or nil
	closureOverride *ssa.MakeClosure
	redirect   *mirror // equiv obligations: reads of mirrored fields / globals are redirected (C20)
}

type deferred struct {
	call *ssa.Defer
}

type loopState struct {
	header   *ssa.BasicBlock
	blocks   map[int]bool
	preHeap  *Heap
	preCur   string
	phiEntry map[*ssa.Phi]Val
	env      *SpecEnv
}

func (u *Unit) newFrame(fn *ssa.Function, c *Contract, depth int) *Frame {
	f := &Frame{u: u, fn: fn, contract: c, vals: map[ssa.Value]Val{}, endCur: map[int]string{}, endHeap: map[int]*Heap{}, reach: map[int]string{}, depth: depth,
		backEdges: map[[2]int]bool{}, loopOrd: map[int]int{}, loopInfo: map[int]*loopState{}, escaped: map[ssa.Value]bool{}, allocRefs: map[ssa.Value]string{}}
	f.fname = funcDisplayName(fn)
	if depth > 0 {
		// obligations raised inside inlined callees belong to the function under contract
		f.fname = u.Name
	}
	return f
}

func funcDisplayName(fn *ssa.Function) string {
	s := fn.RelString(nil)
	if strings.HasPrefix(fn.Name(), "init#") {
		s = strings.Replace(s, fn.Name(), funcKey(fn), 1)
	}
	s = strings.ReplaceAll(s, "github.com/zmap/zlint/v3/", "")
	s = strings.ReplaceAll(s, "github.com/zmap/zlint/v3", "zlint")
	return s
}

// analyseLoops finds back edges and natural loops; assigns ordinals in source order.
func (f *Frame) analyseLoops() {
	fn := f.fn
	headers := map[int]*loopState{}
	for _, b := range fn.Blocks {
		for _, s := range b.Succs {
			if s.Dominates(b) {
				f.backEdges[[2]int{b.Index, s.Index}] = true
				ls := headers[s.Index]
				if ls == nil {
					ls = &loopState{header: s, blocks: map[int]bool{s.Index: true}}
					headers[s.Index] = ls
				}
				// natural loop: nodes reaching b without passing s
				stack := []*ssa.BasicBlock{b}
				for len(stack) > 0 {
					x := stack[len(stack)-1]
					stack = stack[:len(stack)-1]
					if ls.blocks[x.Index] {
						continue
					}
					ls.blocks[x.Index] = true
					for _, p := range x.Preds {
						stack = append(stack, p)
					}
				}
			}
		}
	}
	var hs []int
	for h := range headers {
		hs = append(hs, h)
	}
	// source order: by position of the first instruction with a valid pos in the header/body
	posOf := func(h int) token.Pos {
		best := token.Pos(1 << 40)
		for bi := range headers[h].blocks {
			for _, in := range fn.Blocks[bi].Instrs {
				if p := in.Pos(); p.IsValid() && p < best {
					best = p
				}
			}
		}
		return best
	}
	sort.Slice(hs, func(i, j int) bool {
		pi, pj := posOf(hs[i]), posOf(hs[j])
		if pi != pj {
			return pi < pj
		}
		return hs[i] < hs[j]
	})
	for i, h := range hs {
		f.loopOrd[h] = i + 1
		f.loopInfo[h] = headers[h]
	}
}

// order returns blocks in reverse post-order ignoring back edges.
func (f *Frame) order() []*ssa.BasicBlock {
	seen := map[int]bool{}
	var post []*ssa.BasicBlock
	var dfs func(b *ssa.BasicBlock)
	dfs = func(b *ssa.BasicBlock) {
		seen[b.Index] = true
		for _, s := range b.Succs {
			if f.backEdges[[2]int{b.Index, s.Index}] || seen[s.Index] {
				continue
			}
			dfs(s)
		}
		post = append(post, b)
	}
	dfs(f.fn.Blocks[0])
	for i, j := 0, len(post)-1; i < j; i, j = i+1, j-1 {
		post[i], post[j] = post[j], post[i]
	}
	return post
}

// computeEscapes marks Alloc values whose address leaves the function's direct control.
func (f *Frame) computeEscapes() {
	for _, b := range f.fn.Blocks {
		for _, in := range b.Instrs {
			al, ok := in.(*ssa.Alloc)
			if !ok {
				continue
			}
			for _, ref := range *al.Referrers() {
				switch r := ref.(type) {
				case *ssa.FieldAddr, *ssa.IndexAddr, *ssa.DebugRef:
				case *ssa.UnOp:
				case *ssa.Store:
					if r.Val == al {
						f.escaped[al] = true
					}
				case *ssa.Return:
					// returned after the last call: harmless
				default:
					f.escaped[al] = true
				}
			}
		}
	}
}

// run executes the frame body. heap/cur are the state at entry.
func (f *Frame) run(heap *Heap, cur string) {
	u := f.u
	f.entryHeap = heap.clone()
	f.entryCur = cur
	if f.fn.Blocks == nil {
		panic("no body: " + f.fn.String())
	}
	f.analyseLoops()
	f.computeEscapes()
	for _, b := range f.order() {
		f.runBlock(b, heap, cur)
	}
	// exceptional path: deferred closures with recover
	if len(f.panConds) > 0 && f.fn.Recover != nil && len(f.defers) > 0 {
		f.runRecover()
	}
	_ = u
}

func (f *Frame) edgeCond(p, b *ssa.BasicBlock) string {
	if c, ok := f.edgeOver[[2]int{p.Index, b.Index}]; ok {
		return c
	}
	if f.summarised[p.Index] {
		return "false"
	}
	pc := f.endCur[p.Index]
	if pc == "" {
		return "false"
	}
	if len(p.Instrs) == 0 {
		return pc
	}
	if iff, ok := p.Instrs[len(p.Instrs)-1].(*ssa.If); ok {
		c := f.val(iff.Cond).T
		if p.Succs[0] == b && p.Succs[1] == b {
			return pc
		}
		if p.Succs[0] == b {
			return and(pc, c)
		}
		return and(pc, not(c))
	}
	return pc
}

func (f *Frame) runBlock(b *ssa.BasicBlock, entryHeap *Heap, entryCur string) {
	u := f.u
	var cur string
	var heap *Heap
	var preds []*ssa.BasicBlock
	var conds []string
	if b.Index == 0 || b == f.iterHeader {
		cur, heap = entryCur, entryHeap.clone()
	} else {
		var hs []*Heap
		for _, p := range b.Preds {
			if f.backEdges[[2]int{p.Index, b.Index}] {
				continue
			}
			if _, done := f.endCur[p.Index]; !done {
				continue // unreachable predecessor (e.g. after a panic)
			}
			preds = append(preds, p)
			conds = append(conds, u.define(fmt.Sprintf("e%d_%d", p.Index, b.Index), "Bool", f.edgeCond(p, b)))
			hs = append(hs, f.endHeap[p.Index])
		}
		if len(preds) == 0 {
			return
		}
		cur = u.define(fmt.Sprintf("r%d", b.Index), "Bool", or(conds...))
		if len(hs) == 1 {
			heap = hs[0].clone()
		} else {
			heap = u.newHeap(&Link{kind: "merge", preds: hs, conds: conds})
		}
	}
	f.reach[b.Index] = cur

	ls := f.loopInfo[b.Index]
	isHeader := ls != nil
	// phis
	if b == f.iterHeader {
		for _, in := range b.Instrs {
			phi, ok := in.(*ssa.Phi)
			if !ok {
				break
			}
			if v, ok := f.iterPhis[phi]; ok {
				f.vals[phi] = v
			} else {
				f.vals[phi] = Val{T: u.fresh("phi", u.D.SortOf(phi.Type())), Typ: phi.Type()}
			}
		}
	} else if isHeader && f.summarise {
		f.summariseLoop(b, ls, preds, conds, heap, cur)
		return
	} else if isHeader {
		cur, heap = f.enterLoop(b, ls, preds, conds, heap, cur)
	} else {
		for _, in := range b.Instrs {
			phi, ok := in.(*ssa.Phi)
			if !ok {
				break
			}
			f.definePhi(phi, b, preds, conds)
		}
	}
	st := &state{cur: cur, heap: heap}
	for _, in := range b.Instrs {
		if _, ok := in.(*ssa.Phi); ok {
			continue
		}
		f.instr(in, st)
		if st.dead {
			break
		}
	}
	if !st.dead {
		f.endCur[b.Index] = st.cur
		f.endHeap[b.Index] = st.heap
		// back edges out of this block: preservation obligations
		for _, s := range b.Succs {
			if f.backEdges[[2]int{b.Index, s.Index}] {
				if s == f.iterHeader {
					// arrival at the next iteration: remember the state
					idx := -1
					for i, p := range s.Preds {
						if p == b {
							idx = i
						}
					}
					ph := map[*ssa.Phi]Val{}
					for _, in := range s.Instrs {
						phi, ok := in.(*ssa.Phi)
						if !ok {
							break
						}
						ph[phi] = f.val(phi.Edges[idx])
					}
					f.iterCont = append(f.iterCont, iterCont{cond: f.edgeCond(b, s), phis: ph, heap: st.heap.clone()})
					continue
				}
				f.closeLoop(b, s, st)
			}
		}
	}
}

type state struct {
	cur  string
	heap *Heap
	dead bool
}

func (f *Frame) definePhi(phi *ssa.Phi, b *ssa.BasicBlock, preds []*ssa.BasicBlock, conds []string) {
	u := f.u
	var vs []Val
	for i, p := range b.Preds {
		keep := false
		for _, q := range preds {
			if q == p {
				keep = true
			}
		}
		if !keep {
			continue
		}
		vs = append(vs, f.val(phi.Edges[i]))
	}
	if len(vs) == 0 {
		f.vals[phi] = Val{T: u.fresh("phi", u.D.SortOf(phi.Type())), Typ: phi.Type()}
		return
	}
	if _, isFn := phi.Type().Underlying().(*types.Signature); isFn {
		allClo := true
		var alts []cloAlt
		for i, v := range vs {
			if v.Clo == nil && v.T != "0" {
				allClo = false
			}
			alts = append(alts, cloAlt{cond: conds[i], val: v})
		}
		if allClo {
			if f.cloAlts == nil {
				f.cloAlts = map[ssa.Value][]cloAlt{}
			}
			f.cloAlts[phi] = alts
		}
	}
	for _, v := range vs {
		if v.Loc != nil {
			u.inexact = true
			u.note("phi of interior pointers abstracted in " + f.fname)
			f.vals[phi] = Val{T: u.fresh("phi.loc", "Int"), Typ: phi.Type()}
			return
		}
	}
	term := vs[len(vs)-1].T
	same := true
	for i := len(vs) - 2; i >= 0; i-- {
		if vs[i].T != term {
			same = false
		}
		term = ite(conds[i], vs[i].T, term)
	}
	if same {
		term = vs[0].T
	}
	name := "phi"
	if c := phi.Comment; c != "" {
		name = "phi." + clip(c, 20)
	}
	f.vals[phi] = Val{T: u.define(name, u.D.SortOf(phi.Type()), term), Typ: phi.Type()}
}

// val returns the symbolic value of an SSA value.
func (f *Frame) val(v ssa.Value) Val {
	if x, ok := f.vals[v]; ok {
		return x
	}
	u := f.u
	switch c := v.(type) {
	case *ssa.Const:
		return u.constVal(c)
	case *ssa.Function:
		id := u.W.funcID(c)
		return Val{T: fmt.Sprint(id), Typ: c.Type(), Fn: c}
	case *ssa.Global:
		// address of a package-level variable
		g, _ := c.Object().(*types.Var)
		g = f.redirect.global(g)
		if g == nil {
			return Val{T: u.fresh("glob", "Int"), Typ: c.Type()}
		}
		arr, sort := u.globalCell(g)
		return Val{Typ: c.Type(), Addr: true, Loc: &Loc{Arr: arr, Sort: sort, Typ: g.Type()}}
	case *ssa.Builtin:
		return Val{T: "0", Typ: c.Type()}
	case *ssa.FreeVar:
		// only reached when a closure body is analysed on its own
		x := Val{T: u.fresh("freevar."+c.Name(), u.D.SortOf(c.Type())), Typ: c.Type()}
		f.vals[v] = x
		return x
	case *ssa.Parameter:
		x := Val{T: u.fresh("param."+c.Name(), u.D.SortOf(c.Type())), Typ: c.Type()}
		f.vals[v] = x
		return x
	}
	// value from an unprocessed (unreachable) block
	x := Val{T: u.fresh("undef", u.D.SortOf(v.Type())), Typ: v.Type()}
	f.vals[v] = x
	return x
}

func (u *Unit) constVal(c *ssa.Const) Val {
	t := c.Type()
	if c.Value == nil {
		return Val{T: u.D.Zero(t), Typ: t}
	}
	switch c.Value.Kind() {
	case constant.Bool:
		if constant.BoolVal(c.Value) {
			return Val{T: "true", Typ: t}
		}
		return Val{T: "false", Typ: t}
	case constant.String:
		return Val{T: u.D.StrLit(constant.StringVal(c.Value)), Typ: t}
	case constant.Int:
		if b, ok := t.Underlying().(*types.Basic); ok && b.Info()&types.IsFloat != 0 {
			return Val{T: u.D.Const("float:"+c.Value.ExactString(), "Float"), Typ: t}
		}
		return Val{T: intLit(c.Value.ExactString()), Typ: t}
	case constant.Float, constant.Complex:
		return Val{T: u.D.Const("float:"+c.Value.ExactString(), "Float"), Typ: t}
	}
	return Val{T: u.D.Zero(t), Typ: t}
}

func (f *Frame) set(v ssa.Value, t string) {
	f.vals[v] = Val{T: t, Typ: v.Type()}
}

func (f *Frame) setDef(v ssa.Value, t string) {
	u := f.u
	name := v.Name()
	f.vals[v] = Val{T: u.define(name, u.D.SortOf(v.Type()), t), Typ: v.Type()}
}

func (f *Frame) havocVal(v ssa.Value, why string) {
	u := f.u
	u.inexact = true
	u.note("abstracted: " + why)
	if tup, ok := v.Type().(*types.Tuple); ok {
		var vs []Val
		for i := 0; i < tup.Len(); i++ {
			vs = append(vs, Val{T: u.fresh("hv", u.D.SortOf(tup.At(i).Type())), Typ: tup.At(i).Type()})
		}
		f.vals[v] = Val{Tup: vs, Typ: v.Type()}
		return
	}
	f.vals[v] = Val{T: u.fresh("hv."+v.Name(), u.D.SortOf(v.Type())), Typ: v.Type()}
}

// assumeRange adds the machine-integer range of a freshly introduced value.
func (u *Unit) assumeRange(t string, typ types.Type) {
	if lo, hi, ok := intRange(typ); ok {
		u.emit(fmt.Sprintf("(assert (and (<= %s %s) (<= %s %s)))", lo, t, t, hi))
	}
	if _, ok := typ.Underlying().(*types.Slice); ok {
		u.emit(fmt.Sprintf("(assert (and (>= (sl.len %s) 0) (>= (sl.off %s) 0) (>= (sl.base %s) 0) (=> (= (sl.base %s) 0) (= (sl.len %s) 0))))", t, t, t, t, t))
	}
	if _, ok := typ.Underlying().(*types.Pointer); ok {
		u.emit(fmt.Sprintf("(assert (>= %s 0))", t))
	}
}

// check emits a safety obligation (if enabled) and narrows the path condition.
func (f *Frame) check(st *state, kind, ok string, in ssa.Instruction, what string) {
	u := f.u
	if ok == "true" {
		return
	}
	if u.safety {
		u.oblige(kind, f.fname, st.cur, ok, posStr(u.W.Fset, in.Pos()), what)
	}
	// the path continues only if the operation did not panic
	f.panConds = append(f.panConds, and(st.cur, not(ok)))
	f.panHeaps = append(f.panHeaps, st.heap.clone())
	st.cur = u.define("ok", "Bool", and(st.cur, ok))
}

func (f *Frame) locOf(v ssa.Value) *Loc {
	x := f.val(v)
	if x.Loc != nil {
		return x.Loc
	}
	// a plain reference to a T
	pt, ok := v.Type().Underlying().(*types.Pointer)
	if !ok {
		return nil
	}
	el := pt.Elem()
	local := false
	if al, ok := v.(*ssa.Alloc); ok && !f.escaped[al] {
		local = true
	}
	if _, isStruct := el.Underlying().(*types.Struct); isStruct {
		return &Loc{Arr: "", Key: x.T, Typ: el, Local: local} // whole-struct location
	}
	arr, sort := f.u.cellArr(el)
	return &Loc{Arr: arr, Sort: sort, Key: x.T, Typ: el, Local: local}
}

func (f *Frame) nilCheck(st *state, v ssa.Value, in ssa.Instruction) {
	x := f.val(v)
	if x.Loc != nil {
		return
	}
	if _, ok := v.(*ssa.Alloc); ok {
		return
	}
	if _, ok := v.(*ssa.Global); ok {
		return
	}
	if b, done := f.nonNil[v]; done && (b == in.Block() || b.Dominates(in.Block())) {
		return
	}
	if f.nonNil == nil {
		f.nonNil = map[ssa.Value]*ssa.BasicBlock{}
	}
	f.nonNil[v] = in.Block()
	f.check(st, "nilderef", "(not (= "+x.T+" 0))", in, "nil dereference of "+v.Name())
}

func (f *Frame) instr(in ssa.Instruction, st *state) {
	u := f.u
	switch x := in.(type) {
	case *ssa.DebugRef:
	case *ssa.Alloc:
		el := x.Type().Underlying().(*types.Pointer).Elem()
		r := u.alloc(st.heap, x.Name())
		f.vals[x] = Val{T: r, Typ: x.Type()}
		f.allocRefs[x] = r
		if !f.escaped[x] {
			f.localRefs = append(f.localRefs, r)
		}
		// ghost value of a fresh big.Int is 0
		if nt, ok := el.(*types.Named); ok && nt.Obj().Pkg() != nil && nt.Obj().Pkg().Path() == "math/big" && nt.Obj().Name() == "Int" {
			u.declArr("GF:val", "(Array Int Int)")
			u.hset(st.heap, "GF:val", sto(u.hget(st.heap, "GF:val"), r, "0"))
		}
		// zero-initialise
		if s, ok := el.Underlying().(*types.Struct); ok {
			for i := 0; i < s.NumFields(); i++ {
				a, _ := u.fieldArr(el, i)
				u.hset(st.heap, a, sto(u.hget(st.heap, a), r, u.D.Zero(s.Field(i).Type())))
			}
		} else {
			a, _ := u.cellArr(el)
			u.hset(st.heap, a, sto(u.hget(st.heap, a), r, u.D.Zero(el)))
		}
	case *ssa.FieldAddr:
		base := f.val(x.X)
		st0 := x.X.Type().Underlying().(*types.Pointer).Elem()
		s := st0.Underlying().(*types.Struct)
		if j := f.redirect.field(st0, s, x.Field); j != x.Field {
			// (mirror substitution: this frame reads the corresponding field instead)
			cp := *x
			cp.Field = j
			f.fieldAddr(x, &cp, st, in)
			return
		}
		ft := s.Field(x.Field).Type()
		if len(u.W.CS.TypeInvs[types.TypeString(st0, nil)]) > 0 {
			// a struct value read field by field: its (assumed) type invariant holds for the whole
			if base.Loc != nil {
				u.parserInvariant(st.heap, u.load(st.heap, base.Loc), st0)
			} else if base.T != "" {
				u.parserInvariant(st.heap, u.loadStruct(st.heap, base.T, st0), st0)
			}
		}
		if base.Loc != nil {
			l := *base.Loc
			l.Path = append(append([]pathStep{}, l.Path...), pathStep{Field: x.Field, T: st0})
			l.Typ = ft
			f.vals[x] = Val{Typ: x.Type(), Addr: true, Loc: &l}
			return
		}
		f.nilCheck(st, x.X, in)
		arr, sort := u.fieldArr(st0, x.Field)
		local := false
		if al, ok := x.X.(*ssa.Alloc); ok && !f.escaped[al] {
			local = true
		}
		f.vals[x] = Val{Typ: x.Type(), Addr: true, Loc: &Loc{Arr: arr, Sort: sort, Key: base.T, Typ: ft, Local: local}}
	case *ssa.IndexAddr:
		idx := f.val(x.Index).T
		switch t := x.X.Type().Underlying().(type) {
		case *types.Slice:
			s := f.val(x.X).T
			f.check(st, "bounds", fmt.Sprintf("(and (<= 0 %s) (< %s (sl.len %s)))", idx, idx, s), in, "index out of range")
			arr, sort := u.elemArr(t.Elem())
			f.vals[x] = Val{Typ: x.Type(), Addr: true, Loc: &Loc{Arr: arr, Sort: sort, Key: "(sl.base " + s + ")", Key2: "(sl.at " + s + " " + idx + ")", Typ: t.Elem()}}
		case *types.Pointer: // *[N]T
			at := t.Elem().Underlying().(*types.Array)
			f.check(st, "bounds", fmt.Sprintf("(and (<= 0 %s) (< %s %d))", idx, idx, at.Len()), in, "index out of range")
			bl := f.locOf(x.X)
			if bl == nil || bl.Arr == "" {
				f.havocVal(x, "IndexAddr on unsupported base in "+f.fname)
				return
			}
			l := *bl
			l.Path = append(append([]pathStep{}, l.Path...), pathStep{Field: -1, Idx: idx, T: t.Elem()})
			l.Typ = at.Elem()
			f.vals[x] = Val{Typ: x.Type(), Addr: true, Loc: &l}
		default:
			f.havocVal(x, "IndexAddr on "+x.X.Type().String())
		}
	case *ssa.UnOp:
		f.unop(x, st)
	case *ssa.Store:
		f.storeInstr(x, st)
	case *ssa.BinOp:
		f.binop(x, st)
	case *ssa.Phi:
	case *ssa.Call:
		f.call(x, &x.Call, st)
	case *ssa.ChangeType:
		v := f.val(x.X)
		f.vals[x] = Val{T: v.T, Typ: x.Type(), Loc: v.Loc, Addr: v.Addr, Fn: v.Fn, Clo: v.Clo}
	case *ssa.ChangeInterface:
		v := f.val(x.X)
		f.vals[x] = Val{T: v.T, Typ: x.Type()}
	case *ssa.Convert:
		f.convert(x, st)
	case *ssa.MakeInterface:
		v := f.val(x.X)
		id := u.D.TypeID(x.X.Type())
		var payload string
		if v.Addr && v.Loc != nil && v.T == "" {
			payload = u.addrOf(v.Loc)
		} else if u.D.SortOf(x.X.Type()) == "Int" {
			payload = v.T
		} else {
			srt := u.D.SortOf(x.X.Type())
			box := u.D.Fun("box:"+shortType(x.X.Type()), []string{srt}, "Int")
			unbox := u.D.Fun("unbox:"+shortType(x.X.Type()), []string{"Int"}, srt)
			payload = app(box, v.T)
			u.emit("(assert (= " + app(unbox, payload) + " " + v.T + "))")
		}
		f.setDef(x, fmt.Sprintf("(mk-iface %d %s)", id, payload))
		if al, isAl := x.X.(*ssa.Alloc); isAl {
			if _, mine := f.allocRefs[al]; mine {
				if f.localIfaces == nil {
					f.localIfaces = map[string]Val{}
				}
				f.localIfaces[f.vals[x].T] = Val{T: v.T, Typ: x.X.Type()}
			}
		}
	case *ssa.TypeAssert:
		f.typeAssert(x, st)
	case *ssa.Extract:
		tv := f.val(x.Tuple)
		if x.Index < len(tv.Tup) {
			f.vals[x] = tv.Tup[x.Index]
		} else {
			f.havocVal(x, "extract from unknown tuple")
		}
	case *ssa.Field:
		v := f.val(x.X)
		_, sels, s := u.D.structCtor(x.X.Type())
		fi := x.Field
		if st, ok := x.X.Type().Underlying().(*types.Struct); ok {
			fi = f.redirect.field(x.X.Type(), st, x.Field)
		}
		f.vals[x] = Val{T: app(sels[fi], v.T), Typ: s.Field(fi).Type()}
	case *ssa.Index:
		v := f.val(x.X)
		idx := f.val(x.Index).T
		switch t := x.X.Type().Underlying().(type) {
		case *types.Array:
			f.check(st, "bounds", fmt.Sprintf("(and (<= 0 %s) (< %s %d))", idx, idx, t.Len()), in, "index out of range")
			f.setDef(x, sel(v.T, idx))
		case *types.Basic: // string
			f.check(st, "bounds", fmt.Sprintf("(and (<= 0 %s) (< %s (gs.len %s)))", idx, idx, v.T), in, "string index out of range")
			f.setDef(x, app("gs.at", v.T, idx))
			u.emit(fmt.Sprintf("(assert (and (<= 0 %s) (<= %s 255)))", f.vals[x].T, f.vals[x].T))
		default:
			f.havocVal(x, "Index on "+x.X.Type().String())
		}
	case *ssa.Lookup:
		f.lookup(x, st)
	case *ssa.MapUpdate:
		m := f.val(x.Map).T
		mt := x.Map.Type().Underlying().(*types.Map)
		f.check(st, "nilmap", "(not (= "+m+" 0))", in, "assignment to entry in nil map")
		dom, val := u.mapArrs(mt)
		f.frameCheckRef(st, x, dom, m, "map update")
		k, v := f.val(x.Key).T, f.val(x.Value).T
		d := u.hget(st.heap, dom)
		vv := u.hget(st.heap, val)
		u.hset(st.heap, dom, sto(d, m, sto(sel(d, m), k, "true")))
		u.hset(st.heap, val, sto(vv, m, sto(sel(vv, m), k, v)))
	case *ssa.MakeMap:
		r := u.alloc(st.heap, x.Name())
		mt := x.Type().Underlying().(*types.Map)
		dom, _ := u.mapArrs(mt)
		d := u.hget(st.heap, dom)
		u.hset(st.heap, dom, sto(d, r, fmt.Sprintf("((as const (Array %s Bool)) false)", u.D.SortOf(mt.Key()))))
		f.set(x, r)
	case *ssa.MakeSlice:
		r := u.alloc(st.heap, x.Name())
		t := x.Type().Underlying().(*types.Slice)
		arr, _ := u.elemArr(t.Elem())
		ln := f.val(x.Len).T
		f.check(st, "makeslice", "(>= "+ln+" 0)", in, "makeslice: len out of range")
		a := u.hget(st.heap, arr)
		u.hset(st.heap, arr, sto(a, r, u.D.ConstArray("Int", u.D.SortOf(t.Elem()), u.D.Zero(t.Elem()))))
		f.setDef(x, fmt.Sprintf("(mk-slice %s 0 %s)", r, ln))
	case *ssa.MakeClosure:
		r := u.alloc(st.heap, x.Name())
		f.vals[x] = Val{T: r, Typ: x.Type(), Clo: x, Fn: x.Fn.(*ssa.Function)}
	case *ssa.MakeChan:
		f.set(x, u.alloc(st.heap, x.Name()))
	case *ssa.Slice:
		f.sliceOp(x, st)
	case *ssa.Range:
		f.vals[x] = Val{T: f.val(x.X).T, Typ: x.Type()}
		if mt, ok := x.X.Type().Underlying().(*types.Map); ok {
			// ghost: the set of keys already produced by this iteration
			name := f.visitedName(x)
			u.scalar(name, "(Array "+u.D.SortOf(mt.Key())+" Bool)")
			u.hset(st.heap, name, u.D.ConstArray(u.D.SortOf(mt.Key()), "Bool", "false"))
		}
	case *ssa.Next:
		f.next(x, st)
	case *ssa.Defer:
		f.defers = append(f.defers, deferred{call: x})
	case *ssa.RunDefers:
		f.runDefers(st, "")
	case *ssa.Go:
		u.inexact = true
		u.note("go statement ignored in " + f.fname)
	case *ssa.Send, *ssa.Select:
		u.inexact = true
		u.note("channel operation ignored in " + f.fname)
		if v, ok := in.(ssa.Value); ok {
			f.havocVal(v, "channel op")
		}
	case *ssa.Panic:
		if u.safety {
			u.oblige("panic", f.fname, st.cur, "false", posStr(u.W.Fset, in.Pos()), "explicit panic reachable")
		}
		f.panConds = append(f.panConds, st.cur)
		f.panHeaps = append(f.panHeaps, st.heap.clone())
		st.dead = true
	case *ssa.Return:
		var vs []Val
		for _, r := range x.Results {
			vs = append(vs, f.val(r))
		}
		f.retConds = append(f.retConds, st.cur)
		f.retVals = append(f.retVals, vs)
		f.retHeaps = append(f.retHeaps, st.heap.clone())
		if f.top {
			f.checkPost(x, st, vs)
		}
		st.dead = true
	case *ssa.If, *ssa.Jump:
	case *ssa.SliceToArrayPointer, *ssa.MultiConvert:
		f.havocVal(in.(ssa.Value), fmt.Sprintf("%T", in))
	default:
		if v, ok := in.(ssa.Value); ok {
			f.havocVal(v, fmt.Sprintf("unsupported instruction %T in %s", in, f.fname))
		} else {
			u.inexact = true
			u.note(fmt.Sprintf("unsupported instruction %T in %s", in, f.fname))
		}
	}
}

func (f *Frame) unop(x *ssa.UnOp, st *state) {
	u := f.u
	switch x.Op {
	case token.MUL: // load
		l := f.locOf(x.X)
		if l == nil {
			f.havocVal(x, "load through unsupported pointer")
			return
		}
		if l.Arr == "" { // whole struct via ref
			f.nilCheck(st, x.X, x)
			f.setDef(x, u.loadStruct(st.heap, l.Key, l.Typ))
			return
		}
		if f.val(x.X).Loc == nil {
			f.nilCheck(st, x.X, x)
		}
		t := u.load(st.heap, l)
		f.setDef(x, t)
		v := f.vals[x]
		// remember the struct field a function value came from (field contracts)
		if fa, ok := x.X.(*ssa.FieldAddr); ok {
			s := fa.X.Type().Underlying().(*types.Pointer).Elem().Underlying().(*types.Struct)
			v.FieldSrc = s.Field(fa.Field)
			if n, ok := fa.X.Type().Underlying().(*types.Pointer).Elem().(*types.Named); ok {
				v.T = v.T
				_ = n
			}
		}
		f.vals[x] = v
		u.wellFormedLoaded(st.heap, v.T, x.Type())
		if sg, ok := x.X.(*ssa.Global); ok {
			if gv, ok := sg.Object().(*types.Var); ok && f.fn.Name() != "init" && u.globalNonNil(gv) {
				u.emit("(assert " + nonNilTerm(v.T, x.Type()) + ")")
			}
			if gv, ok := sg.Object().(*types.Var); ok && f.fn.Name() != "init" && u.structKeys {
				gv = f.redirect.global(gv)
				if c, ok := u.globalConst(gv); ok {
					u.emit("(assert (= " + v.T + " " + u.constVal(c).T + "))")
				}
			}
		}
		// attribute lists of a parsed pkix.Name are nil or non-empty
		if n := len(l.Path); n > 0 && l.Path[n-1].Field >= 0 && types.TypeString(l.Path[n-1].T, nil) == "github.com/zmap/zcrypto/x509/pkix.Name" {
			if _, isSlice := x.Type().Underlying().(*types.Slice); isSlice {
				u.emit(fmt.Sprintf("(assert (=> (not (= (sl.base %s) 0)) (>= (sl.len %s) 1)))", v.T, v.T))
				u.trusted["parser invariant: the attribute lists of a parsed pkix.Name are nil or non-empty (built by append)"] = true
			}
		}
	case token.NOT:
		f.setDef(x, not(f.val(x.X).T))
	case token.SUB:
		if u.D.SortOf(x.Type()) != "Int" {
			f.havocVal(x, "float negation")
			return
		}
		f.setDef(x, u.wrap("(- "+f.val(x.X).T+")", x.Type()))
	case token.XOR:
		fn := u.D.Fun("int.not", []string{"Int"}, "Int")
		f.setDef(x, app(fn, f.val(x.X).T))
	case token.ARROW:
		f.havocVal(x, "channel receive")
	default:
		f.havocVal(x, "unop "+x.Op.String())
	}
}

// wellFormedLoaded states type invariants of a value read from memory.
func (u *Unit) wellFormedLoaded(h *Heap, t string, typ types.Type) {
	u.parserInvariant(h, t, typ)
	switch typ.Underlying().(type) {
	case *types.Pointer, *types.Map:
		u.emit(fmt.Sprintf("(assert (and (>= %s 0) (<= %s %s)))", t, t, u.top(h)))
	case *types.Slice:
		u.emit(fmt.Sprintf("(assert (and (>= (sl.len %s) 0) (>= (sl.off %s) 0) (>= (sl.base %s) 0) (<= (sl.base %s) %s) (=> (= (sl.base %s) 0) (= (sl.len %s) 0))))", t, t, t, t, u.top(h), t, t))
	case *types.Interface:
		u.emit(fmt.Sprintf("(assert (and (>= (if.typ %s) 0) (=> (= (if.typ %s) 0) (= (if.val %s) 0))))", t, t, t))
	case *types.Basic:
		if lo, hi, ok := intRange(typ); ok {
			u.emit(fmt.Sprintf("(assert (and (<= %s %s) (<= %s %s)))", lo, t, t, hi))
		}
	}
}

func (f *Frame) storeInstr(x *ssa.Store, st *state) {
	u := f.u
	l := f.locOf(x.Addr)
	v := f.val(x.Val)
	if l == nil {
		u.inexact = true
		u.note("store through unsupported pointer in " + f.fname)
		return
	}
	if v.Loc != nil {
		u.inexact = true
		u.note("store of interior pointer in " + f.fname)
		v.T = u.fresh("locval", "Int")
		if v.Addr {
			// the address of a variable, field or element is never nil
			u.emit("(assert (not (= " + v.T + " 0)))")
		}
	}
	if !l.Local {
		f.frameCheckRef(st, x, l.Arr, l.Key, "store")
	}
	if l.Arr == "" {
		f.nilCheck(st, x.Addr, x)
		u.storeStruct(st.heap, l.Key, l.Typ, v.T)
		u.bumpHV(st.heap, l.Local)
		return
	}
	if f.val(x.Addr).Loc == nil {
		f.nilCheck(st, x.Addr, x)
	}
	u.store(st.heap, l, v.T)
	if (!strings.HasPrefix(l.Arr, "P:") || !l.Local) && !youngStore(x) {
		u.bumpHV(st.heap, l.Local)
	}
}

// youngStore: the store initialises an object allocated earlier in the same block that nothing
// else has seen yet (composite literals, variadic argument arrays); no pure function evaluated
// before can have depended on it, so the heap version need not advance.
func youngStore(x *ssa.Store) bool {
	derived := map[ssa.Value]bool{}
	var root ssa.Value = x.Addr
	for {
		switch a := root.(type) {
		case *ssa.FieldAddr:
			root = a.X
			continue
		case *ssa.IndexAddr:
			root = a.X
			continue
		}
		break
	}
	al, ok := root.(*ssa.Alloc)
	if !ok || al.Block() != x.Block() {
		return false
	}
	derived[al] = true
	started := false
	for _, in := range x.Block().Instrs {
		if in == ssa.Instruction(al) {
			started = true
			continue
		}
		if !started {
			continue
		}
		if in == ssa.Instruction(x) {
			return true
		}
		switch i := in.(type) {
		case *ssa.FieldAddr:
			if derived[i.X] {
				derived[i] = true
			}
			continue
		case *ssa.IndexAddr:
			if derived[i.X] {
				derived[i] = true
				continue
			}
		case *ssa.Store:
			if derived[i.Addr] && !derived[i.Val] {
				continue
			}
		case *ssa.DebugRef:
			continue
		}
		for _, op := range in.Operands(nil) {
			if *op != nil && derived[*op] {
				return false
			}
		}
	}
	return false
}

// bumpHV advances the heap version that pure (heap-reading) spec functions depend on.
func (u *Unit) bumpHV(h *Heap, local bool) {
	if local {
		return
	}
	u.scalar("$hv", "Int")
	cur := u.hget(h, "$hv")
	u.hset(h, "$hv", "(+ "+cur+" 1)")
}

func (u *Unit) wrap(t string, typ types.Type) string {
	// mathematical integers; overflow is a separate obligation where enabled
	return t
}

func (f *Frame) binop(x *ssa.BinOp, st *state) {
	u := f.u
	a, b := f.val(x.X), f.val(x.Y)
	srt := u.D.SortOf(x.X.Type())
	if a.Loc != nil || b.Loc != nil {
		f.havocVal(x, "comparison of interior pointers")
		return
	}
	switch x.Op {
	case token.EQL, token.NEQ:
		t := eq(a.T, b.T)
		if _, isSlice := x.X.Type().Underlying().(*types.Slice); isSlice {
			// slices are only comparable with nil: a slice is nil iff it has no backing array
			o := a.T
			if c, ok := x.X.(*ssa.Const); ok && c.Value == nil {
				o = b.T
			}
			t = "(= (sl.base " + o + ") 0)"
		}
		if x.Op == token.NEQ {
			t = not(t)
		}
		f.setDef(x, t)
		return
	}
	switch srt {
	case "Int":
		var t string
		switch x.Op {
		case token.ADD:
			t = "(+ " + a.T + " " + b.T + ")"
		case token.SUB:
			t = "(- " + a.T + " " + b.T + ")"
		case token.MUL:
			t = "(* " + a.T + " " + b.T + ")"
		case token.QUO:
			f.check(st, "divzero", "(not (= "+b.T+" 0))", x, "integer divide by zero")
			// Go truncates toward zero
			t = fmt.Sprintf("(ite (>= %s 0) (div %s %s) (- (div (- %s) %s)))", a.T, a.T, b.T, a.T, b.T)
		case token.REM:
			f.check(st, "divzero", "(not (= "+b.T+" 0))", x, "integer divide by zero")
			t = fmt.Sprintf("(ite (>= %s 0) (mod %s %s) (- (mod (- %s) %s)))", a.T, a.T, b.T, a.T, b.T)
		case token.LSS:
			t = "(< " + a.T + " " + b.T + ")"
		case token.LEQ:
			t = "(<= " + a.T + " " + b.T + ")"
		case token.GTR:
			t = "(> " + a.T + " " + b.T + ")"
		case token.GEQ:
			t = "(>= " + a.T + " " + b.T + ")"
		case token.AND, token.OR, token.XOR, token.SHL, token.SHR, token.AND_NOT:
			t = u.bitop(x.Op, a.T, b.T, x.Type(), st)
		default:
			f.havocVal(x, "int binop "+x.Op.String())
			return
		}
		switch x.Op {
		case token.ADD, token.SUB, token.MUL:
			if lo, hi, ok := intRange(x.Type()); ok {
				if u.overflow {
					u.oblige("overflow", f.fname, st.cur, fmt.Sprintf("(and (<= %s %s) (<= %s %s))", lo, t, t, hi), posStr(u.W.Fset, x.Pos()), "integer overflow")
				} else {
					u.note("machine integers treated as mathematical (no overflow obligations) in " + f.fname)
				}
			}
		}
		f.setDef(x, t)
	case "Str":
		switch x.Op {
		case token.ADD:
			t := app("gs.cat", a.T, b.T)
			f.setDef(x, t)
			u.emit(fmt.Sprintf("(assert (= (gs.len %s) (+ (gs.len %s) (gs.len %s))))", f.vals[x].T, a.T, b.T))
		case token.LSS:
			f.setDef(x, app("gs.lt", a.T, b.T))
		case token.GTR:
			f.setDef(x, app("gs.lt", b.T, a.T))
		case token.LEQ:
			f.setDef(x, not(app("gs.lt", b.T, a.T)))
		case token.GEQ:
			f.setDef(x, not(app("gs.lt", a.T, b.T)))
		default:
			f.havocVal(x, "string binop")
		}
	case "Bool":
		switch x.Op {
		case token.AND:
			f.setDef(x, and(a.T, b.T))
		case token.OR:
			f.setDef(x, or(a.T, b.T))
		default:
			f.havocVal(x, "bool binop")
		}
	default:
		f.havocVal(x, "binop on "+srt)
	}
}

func (u *Unit) bitop(op token.Token, a, b string, typ types.Type, st *state) string {
	// constant shifts are exact; the rest are uninterpreted in integer mode
	switch op {
	case token.SHL:
		if n, ok := smallConst(b); ok {
			return u.modType("(* "+a+" "+pow2(n)+")", typ)
		}
	case token.SHR:
		if n, ok := smallConst(b); ok {
			return "(div " + a + " " + pow2(n) + ")"
		}
	case token.AND:
		if n, ok := maskConst(b); ok {
			return "(mod " + a + " " + pow2(n) + ")"
		}
		if n, ok := maskConst(a); ok {
			return "(mod " + b + " " + pow2(n) + ")"
		}
	}
	u.note("bit operation " + op.String() + " uninterpreted (integer mode)")
	fn := u.D.Fun("int."+op.String(), []string{"Int", "Int"}, "Int")
	r := app(fn, a, b)
	if op == token.AND {
		// x & m is between 0 and m for non-negative m
		u.emit(fmt.Sprintf("(assert (=> (>= %s 0) (and (<= 0 %s) (<= %s %s))))", b, r, r, b))
	}
	return r
}

func (u *Unit) modType(t string, typ types.Type) string {
	bits, signed := intBits(typ)
	if bits == 0 || signed {
		return t
	}
	return "(mod " + t + " " + pow2(bits) + ")"
}

func smallConst(t string) (int, bool) {
	var n int
	if _, err := fmt.Sscanf(t, "%d", &n); err == nil && fmt.Sprint(n) == t && n >= 0 && n < 256 {
		return n, true
	}
	return 0, false
}

func maskConst(t string) (int, bool) {
	var n uint64
	if _, err := fmt.Sscanf(t, "%d", &n); err == nil && fmt.Sprint(n) == t {
		for k := 1; k < 64; k++ {
			if n == (uint64(1)<<uint(k))-1 {
				return k, true
			}
		}
	}
	return 0, false
}

func (f *Frame) convert(x *ssa.Convert, st *state) {
	u := f.u
	v := f.val(x.X)
	from, to := x.X.Type().Underlying(), x.Type().Underlying()
	fs, ts := u.D.SortOf(x.X.Type()), u.D.SortOf(x.Type())
	switch {
	case fs == "Int" && ts == "Int":
		bf, _ := from.(*types.Basic)
		bt, _ := to.(*types.Basic)
		if bf == nil || bt == nil {
			f.vals[x] = Val{T: v.T, Typ: x.Type()}
			return
		}
		flo, fhi, _ := intRange(from)
		tlo, thi, ok := intRange(to)
		if !ok || (flo == tlo && fhi == thi) {
			f.vals[x] = Val{T: v.T, Typ: x.Type()}
			return
		}
		bits, signed := intBits(to)
		fb, fsig := intBits(from)
		if (signed == fsig && bits >= fb) || (signed && !fsig && bits > fb) {
			f.vals[x] = Val{T: v.T, Typ: x.Type()} // widening
			return
		}
		m := pow2(bits)
		if !signed {
			f.setDef(x, "(mod "+v.T+" "+m+")")
		} else {
			h := pow2(bits - 1)
			f.setDef(x, fmt.Sprintf("(- (mod (+ %s %s) %s) %s)", v.T, h, m, h))
		}
	case fs == "Str" && ts == "Slice": // []byte(s) / []rune(s)
		r := u.alloc(st.heap, x.Name())
		el := to.(*types.Slice).Elem()
		if b, ok := el.Underlying().(*types.Basic); ok && b.Kind() == types.Uint8 {
			arr, _ := u.elemArr(el)
			a := u.hget(st.heap, arr)
			fn := u.D.Fun("gs.bytes", []string{"Str"}, "(Array Int Int)")
			u.hset(st.heap, arr, sto(a, r, app(fn, v.T)))
			u.D.axiom("(forall ((s Str) (i Int)) (! (= (select (gs.bytes s) i) (gs.at s i)) :pattern ((select (gs.bytes s) i))))")
			f.setDef(x, fmt.Sprintf("(mk-slice %s 0 (gs.len %s))", r, v.T))
		} else {
			ln := u.fresh("runes.len", "Int")
			u.emit(fmt.Sprintf("(assert (and (<= 0 %s) (<= %s (gs.len %s))))", ln, ln, v.T))
			f.setDef(x, fmt.Sprintf("(mk-slice %s 0 %s)", r, ln))
		}
	case fs == "Slice" && ts == "Str": // string(bytes)
		el := from.(*types.Slice).Elem()
		res := u.fresh("gs.of", "Str")
		if b, ok := el.Underlying().(*types.Basic); ok && b.Kind() == types.Uint8 {
			// the specification-level observer of a byte slice's contents
			sob := u.D.Fun("spec:strOfBytes", []string{"Slice"}, "Str")
			u.emit("(assert (= " + res + " " + app(sob, v.T) + "))")
			u.note("string(bytes) equals strOfBytes(slice value): byte slices are assumed not to be mutated between observations")
			u.emit(fmt.Sprintf("(assert (= (gs.len %s) (sl.len %s)))", res, v.T))
			arr, _ := u.elemArr(el)
			a := u.hget(st.heap, arr)
			u.emit(fmt.Sprintf("(assert (forall ((i Int)) (! (=> (and (<= 0 i) (< i (sl.len %s))) (= (gs.at %s i) (select (select %s (sl.base %s)) (sl.at %s i)))) :pattern ((gs.at %s i)))))", v.T, res, a, v.T, v.T, res))
		}
		f.set(x, res)
	case fs == "Int" && ts == "Str": // string(rune)
		fn := u.D.Fun("gs.ofrune", []string{"Int"}, "Str")
		f.setDef(x, app(fn, v.T))
	case fs == "Int" && ts == "Float":
		fn := u.D.Fun("float.ofint", []string{"Int"}, "Float")
		f.setDef(x, app(fn, v.T))
	case fs == "Float" && ts == "Int":
		fn := u.D.Fun("int.offloat", []string{"Float"}, "Int")
		f.setDef(x, app(fn, v.T))
		u.assumeRange(f.vals[x].T, x.Type())
	case fs == ts:
		f.vals[x] = Val{T: v.T, Typ: x.Type(), Loc: v.Loc, Addr: v.Addr}
	default:
		f.havocVal(x, "conversion "+x.X.Type().String()+" -> "+x.Type().String())
	}
}

func (f *Frame) typeAssert(x *ssa.TypeAssert, st *state) {
	u := f.u
	v := f.val(x.X)
	var ok, res string
	if _, isIface := x.AssertedType.Underlying().(*types.Interface); isIface {
		impl := u.D.Fun("implements", []string{"Int", "Int"}, "Bool")
		iid := u.D.TypeID(x.AssertedType)
		ok = and("(not (= (if.typ "+v.T+") 0))", app(impl, "(if.typ "+v.T+")", fmt.Sprint(iid)))
		// statically known implementations
		u.W.implementsAxioms(u, x.AssertedType, impl, iid)
		res = v.T
	} else {
		id := u.D.TypeID(x.AssertedType)
		ok = fmt.Sprintf("(= (if.typ %s) %d)", v.T, id)
		if u.D.SortOf(x.AssertedType) == "Int" {
			res = "(if.val " + v.T + ")"
		} else {
			srt := u.D.SortOf(x.AssertedType)
			u.D.Fun("box:"+shortType(x.AssertedType), []string{srt}, "Int")
			unbox := u.D.Fun("unbox:"+shortType(x.AssertedType), []string{"Int"}, srt)
			res = app(unbox, "(if.val "+v.T+")")
		}
	}
	okd := u.define("ta.ok", "Bool", ok)
	if x.CommaOk {
		zero := u.D.Zero(x.AssertedType)
		rv := u.define(x.Name(), u.D.SortOf(x.AssertedType), ite(okd, res, zero))
		u.parserInvariant(st.heap, rv, x.AssertedType)
		if _, isPtr := x.AssertedType.Underlying().(*types.Pointer); isPtr {
			u.emit("(assert (=> " + okd + " (not (= " + rv + " 0))))")
			u.trusted["parser invariant: interfaces of parsed objects never hold typed nil pointers"] = true
		}
		f.vals[x] = Val{Typ: x.Type(), Tup: []Val{{T: rv, Typ: x.AssertedType}, {T: okd, Typ: types.Typ[types.Bool]}}}
		return
	}
	f.check(st, "typeassert", okd, x, "type assertion to "+shortType(x.AssertedType))
	f.vals[x] = Val{T: u.define(x.Name(), u.D.SortOf(x.AssertedType), res), Typ: x.AssertedType}
	u.parserInvariant(st.heap, f.vals[x].T, x.AssertedType)
	if _, isPtr := x.AssertedType.Underlying().(*types.Pointer); isPtr {
		u.emit("(assert (=> " + st.cur + " (not (= " + f.vals[x].T + " 0))))")
		u.trusted["parser invariant: interfaces of parsed objects never hold typed nil pointers"] = true
	}
}

func (f *Frame) lookup(x *ssa.Lookup, st *state) {
	u := f.u
	switch t := x.X.Type().Underlying().(type) {
	case *types.Map:
		m := f.val(x.X)
		var mt string
		if m.Loc != nil {
			mt = u.load(st.heap, m.Loc)
		} else {
			mt = m.T
		}
		k := f.val(x.Index).T
		dom, val := u.mapArrs(t)
		in := u.define("m.in", "Bool", and("(not (= "+mt+" 0))", sel(sel(u.hget(st.heap, dom), mt), k)))
		v := ite(in, sel(sel(u.hget(st.heap, val), mt), k), u.D.Zero(t.Elem()))
		vd := u.define(x.Name(), u.D.SortOf(t.Elem()), v)
		u.wellFormedLoaded(st.heap, vd, t.Elem())
		if x.CommaOk {
			f.vals[x] = Val{Typ: x.Type(), Tup: []Val{{T: vd, Typ: t.Elem()}, {T: in, Typ: types.Typ[types.Bool]}}}
		} else {
			f.vals[x] = Val{T: vd, Typ: t.Elem()}
		}
	case *types.Basic:
		s := f.val(x.X).T
		idx := f.val(x.Index).T
		f.check(st, "bounds", fmt.Sprintf("(and (<= 0 %s) (< %s (gs.len %s)))", idx, idx, s), x, "string index out of range")
		f.setDef(x, app("gs.at", s, idx))
		u.emit(fmt.Sprintf("(assert (and (<= 0 %s) (<= %s 255)))", f.vals[x].T, f.vals[x].T))
	default:
		f.havocVal(x, "lookup")
	}
}

func (f *Frame) sliceOp(x *ssa.Slice, st *state) {
	u := f.u
	v := f.val(x.X)
	lo := "0"
	if x.Low != nil {
		lo = f.val(x.Low).T
	}
	switch t := x.X.Type().Underlying().(type) {
	case *types.Slice:
		hi := "(sl.len " + v.T + ")"
		if x.High != nil {
			hi = f.val(x.High).T
		}
		capT := u.sliceCap(v.T)
		lim := capT
		if x.High == nil {
			lim = "(sl.len " + v.T + ")"
		}
		f.check(st, "bounds", fmt.Sprintf("(and (<= 0 %s) (<= %s %s) (<= %s %s))", lo, lo, hi, hi, lim), x, "slice bounds out of range")
		f.setDef(x, fmt.Sprintf("(mk-slice (sl.base %s) (+ (sl.off %s) %s) (- %s %s))", v.T, v.T, lo, hi, lo))
		nc := u.sliceCap(f.vals[x].T)
		u.emit(fmt.Sprintf("(assert (= %s (- %s %s)))", nc, capT, lo))
	case *types.Basic:
		hi := "(gs.len " + v.T + ")"
		if x.High != nil {
			hi = f.val(x.High).T
		}
		f.check(st, "bounds", fmt.Sprintf("(and (<= 0 %s) (<= %s %s) (<= %s (gs.len %s)))", lo, lo, hi, hi, v.T), x, "slice bounds out of range")
		f.setDef(x, app("gs.sub", v.T, lo, hi))
		r := f.vals[x].T
		u.emit(fmt.Sprintf("(assert (= (gs.len %s) (- %s %s)))", r, hi, lo))
		u.emit(fmt.Sprintf("(assert (forall ((i Int)) (! (=> (and (<= 0 i) (< i (- %s %s))) (= (gs.at %s i) (gs.at %s (+ %s i)))) :pattern ((gs.at %s i)))))", hi, lo, r, v.T, lo, r))
	case *types.Pointer: // *[N]T
		at := t.Elem().Underlying().(*types.Array)
		hi := fmt.Sprint(at.Len())
		if x.High != nil {
			hi = f.val(x.High).T
		}
		f.check(st, "bounds", fmt.Sprintf("(and (<= 0 %s) (<= %s %s) (<= %s %d))", lo, lo, hi, hi, at.Len()), x, "slice bounds out of range")
		// copy the array into a fresh backing store (aliasing with the array is not modelled)
		r := u.alloc(st.heap, x.Name())
		l := f.locOf(x.X)
		arr, _ := u.elemArr(at.Elem())
		if l != nil && l.Arr != "" {
			a := u.hget(st.heap, arr)
			u.hset(st.heap, arr, sto(a, r, u.load(st.heap, l)))
			u.note("slice of array copies the array (aliasing not modelled) in " + f.fname)
		}
		f.setDef(x, fmt.Sprintf("(mk-slice %s %s (- %s %s))", r, lo, hi, lo))
	default:
		f.havocVal(x, "slice op")
	}
}

func (u *Unit) sliceCap(s string) string {
	fn := u.D.Fun("sl.cap", []string{"Slice"}, "Int")
	u.D.axiom("(forall ((s Slice)) (! (>= (sl.cap s) (sl.len s)) :pattern ((sl.cap s))))")
	return app(fn, s)
}

func (f *Frame) next(x *ssa.Next, st *state) {
	u := f.u
	rng, _ := x.Iter.(*ssa.Range)
	tup := x.Type().(*types.Tuple)
	ok := u.fresh("next.ok", "Bool")
	if x.IsString || rng == nil {
		k := u.fresh("next.k", "Int")
		v := u.fresh("next.v", "Int")
		f.vals[x] = Val{Typ: x.Type(), Tup: []Val{{T: ok, Typ: tup.At(0).Type()}, {T: k, Typ: tup.At(1).Type()}, {T: v, Typ: tup.At(2).Type()}}}
		if rng != nil {
			s := f.val(rng.X).T
			u.emit(fmt.Sprintf("(assert (=> %s (and (<= 0 %s) (< %s (gs.len %s)))))", ok, k, k, s))
		}
		return
	}
	mt := rng.X.Type().Underlying().(*types.Map)
	m := f.val(rng.X).T
	dom, val := u.mapArrs(mt)
	ks := u.D.SortOf(mt.Key())
	k := u.fresh("next.k", ks)
	u.assumeRange(k, mt.Key()) // a key of the map is a value of its key type
	v := u.define("next.v", u.D.SortOf(mt.Elem()), sel(sel(u.hget(st.heap, val), m), k))
	// Go's map iteration yields every key exactly once (the map is not modified while
	// ranging over it in the code under contract): ok => a key not seen before;
	// !ok => every key has been seen
	vn := f.visitedName(rng)
	u.scalar(vn, "(Array "+ks+" Bool)")
	vis := u.hget(st.heap, vn)
	d := sel(u.hget(st.heap, dom), m)
	u.emit(fmt.Sprintf("(assert (=> %s (and (not (= %s 0)) %s (not %s))))", ok, m, sel(d, k), sel(vis, k)))
	u.emit(fmt.Sprintf("(assert (=> (not %s) (forall ((x %s)) (! (=> (and (not (= %s 0)) (select %s x)) (select %s x)) :pattern ((select %s x))))))", ok, ks, m, d, vis, d))
	u.emit(fmt.Sprintf("(assert (forall ((x %s)) (! (=> (select %s x) (and (not (= %s 0)) (select %s x))) :pattern ((select %s x)))))", ks, vis, m, d, vis))
	u.hset(st.heap, vn, ite(ok, sto(vis, k, "true"), vis))
	// recorded for countval(): the visited set after this step is the one before plus, when the
	// iteration goes on, the one new key k (not visited before)
	if f.mapSteps == nil {
		f.mapSteps = map[string]mapStep{}
	}
	f.mapSteps[u.hget(st.heap, vn)] = mapStep{old: vis, key: k, ok: ok}
	u.wellFormedLoaded(st.heap, v, mt.Elem())
	f.vals[x] = Val{Typ: x.Type(), Tup: []Val{{T: ok, Typ: tup.At(0).Type()}, {T: k, Typ: mt.Key()}, {T: v, Typ: mt.Elem()}}}
}

func (f *Frame) visitedName(r *ssa.Range) string {
	return fmt.Sprintf("$g.vis:%s:%s", f.fname, r.Name())
}

// rangeOfLoop finds the map Range instruction iterated by loop ordinal n.
func (f *Frame) rangeOfLoop(n int) *ssa.Range {
	for h, ord := range f.loopOrd {
		if ord != n {
			continue
		}
		for _, in := range f.fn.Blocks[h].Instrs {
			if nx, ok := in.(*ssa.Next); ok {
				if r, ok := nx.Iter.(*ssa.Range); ok {
					return r
				}
			}
		}
	}
	return nil
}


// parserInvariant: consistency facts about objects built by the zcrypto / x/crypto parsers
// (assumed; the properties quantify over parser-accepted inputs). Kept deliberately short.
func (u *Unit) parserInvariant(h *Heap, t string, typ types.Type) {
	name := types.TypeString(typ, nil)
	if os.Getenv("GOVC_DEBUG_TI") != "" {
		fmt.Fprintln(os.Stderr, "parserInvariant", name, t, len(u.W.CS.TypeInvs[name]))
	}
	if tis := u.W.CS.TypeInvs[name]; len(tis) > 0 && t != "" {
		key := fmt.Sprintf("%s|%s|%p", name, t, h)
		if u.tiDone == nil {
			u.tiDone = map[string]bool{}
		}
		if !u.tiDone[key] {
			u.tiDone[key] = true
			for _, ti := range tis {
				env := &SpecEnv{u: u, pkg: u.W.pkgByPath(u.W.ModPath + "/util"), vars: map[string]Val{ti.Var: {T: t, Typ: typ}}, heap: h, oldHeap: h}
				b, err := env.evalBool(ti.Text)
				if err != nil {
					u.W.fail("%s:%d: typeinv %s: %v", ti.File, ti.Line, ti.Type, err)
					continue
				}
				guard := "true"
				switch typ.Underlying().(type) {
				case *types.Pointer:
					guard = "(not (= " + t + " 0))"
				}
				u.emit("(assert " + implies(guard, b) + ")")
				u.trusted[fmt.Sprintf("parser invariant (assumed, %s:%d): every %s the parsers build satisfies %s", filepath.Base(ti.File), ti.Line, ti.Type, ti.Text)] = true
			}
		}
	}
	switch name {
	case "*crypto/rsa.PublicKey":
		// a parsed RSA public key has a modulus
		if pt, ok := typ.(*types.Pointer); ok {
			if st, ok := pt.Elem().Underlying().(*types.Struct); ok {
				for i := 0; i < st.NumFields(); i++ {
					if st.Field(i).Name() == "N" {
						arr, _ := u.fieldArr(pt.Elem(), i)
						u.emit(fmt.Sprintf("(assert (=> (not (= %s 0)) (not (= (select %s %s) 0))))", t, u.hget(h, arr), t))
						u.trusted["parser invariant: a parsed *rsa.PublicKey has a non-nil modulus N"] = true
					}
				}
			}
		}
	case "github.com/zmap/zcrypto/x509/pkix.Name":
		// attribute lists are built by append: nil or non-empty
		if st, ok := typ.Underlying().(*types.Struct); ok {
			_, sels, _ := u.D.structCtor(typ)
			for i := 0; i < st.NumFields(); i++ {
				if _, isSlice := st.Field(i).Type().Underlying().(*types.Slice); isSlice && st.Field(i).Exported() {
					f := app(sels[i], t)
					u.emit(fmt.Sprintf("(assert (=> (not (= (sl.base %s) 0)) (>= (sl.len %s) 1)))", f, f))
				}
			}
			u.trusted["parser invariant: the attribute lists of a parsed pkix.Name are nil or non-empty (built by append)"] = true
		}
	}
}


// fieldAddr: the FieldAddr case for a (possibly redirected) field; the value is bound to the
// original instruction.
func (f *Frame) fieldAddr(orig *ssa.FieldAddr, x *ssa.FieldAddr, st *state, in ssa.Instruction) {
	u := f.u
	base := f.val(x.X)
	st0 := x.X.Type().Underlying().(*types.Pointer).Elem()
	s := st0.Underlying().(*types.Struct)
	ft := s.Field(x.Field).Type()
	if len(u.W.CS.TypeInvs[types.TypeString(st0, nil)]) > 0 {
		// a struct value read field by field: its (assumed) type invariant holds for the whole
		if base.Loc != nil {
			u.parserInvariant(st.heap, u.load(st.heap, base.Loc), st0)
		} else if base.T != "" {
			u.parserInvariant(st.heap, u.loadStruct(st.heap, base.T, st0), st0)
		}
	}
	if base.Loc != nil {
		l := *base.Loc
		l.Path = append(append([]pathStep{}, l.Path...), pathStep{Field: x.Field, T: st0})
		l.Typ = ft
		f.vals[orig] = Val{Typ: orig.Type(), Addr: true, Loc: &l}
		return
	}
	f.nilCheck(st, x.X, in)
	arr, sort := u.fieldArr(st0, x.Field)
	f.vals[orig] = Val{Typ: orig.Type(), Addr: true, Loc: &Loc{Arr: arr, Sort: sort, Key: base.T, Typ: ft}}
}

// summariseLoop replaces a loop without invariant by a deterministic summary: which exit edge
// is taken and every value that flows out of the loop are uninterpreted functions of the loop's
// live-in values (and the heap version). Two executions with the same live-ins agree.
func (f *Frame) summariseLoop(h *ssa.BasicBlock, ls *loopState, preds []*ssa.BasicBlock, conds []string, heap *Heap, cur string) {
	u := f.u
	if f.edgeOver == nil {
		f.edgeOver = map[[2]int]string{}
		f.summarised = map[int]bool{}
	}
	// entry values of the header phis
	for _, in := range h.Instrs {
		phi, ok := in.(*ssa.Phi)
		if !ok {
			break
		}
		f.definePhi(phi, h, preds, conds)
	}
	// live-ins: operands defined outside the loop (header phis contribute their entry values)
	var ins []string
	var sorts []string
	seen := map[string]bool{}
	seenV := map[ssa.Value]bool{}
	addIn := func(v ssa.Value) {
		if in, ok := v.(ssa.Instruction); ok && in.Block() != nil && ls.blocks[in.Block().Index] {
			if phi, isPhi := v.(*ssa.Phi); !isPhi || phi.Block() != h {
				return
			}
		}
		x := f.val(v)
		if _, isC := v.(*ssa.Const); isC {
			return
		}
		if u.structKeys {
			// (position in the argument list must depend on the code only: one entry per live-in value)
			if x.T == "" || x.Loc != nil || seenV[v] {
				return
			}
			if _, isFn := v.(*ssa.Function); isFn {
				return
			}
			if _, isG := v.(*ssa.Global); isG {
				return
			}
			seenV[v] = true
		} else {
			if x.T == "" || x.Loc != nil || seen[x.T] {
				return
			}
			seen[x.T] = true
		}
		typ := v.Type()
		if x.Typ != nil {
			typ = x.Typ
		}
		if rg, isRange := v.(*ssa.Range); isRange {
			typ = rg.X.Type()
		}
		if sl, isSl := typ.Underlying().(*types.Slice); isSl {
			// a list is identified by its contents, not by where it was allocated: two runs that
			// build equal lists at different addresses get the same summary
			arr, _ := u.elemArr(sl.Elem())
			ins = append(ins, sel(u.hget(heap, arr), "(sl.base "+x.T+")"), "(sl.off "+x.T+")", "(sl.len "+x.T+")")
			sorts = append(sorts, "(Array Int "+u.D.SortOf(sl.Elem())+")", "Int", "Int")
			return
		}
		ins = append(ins, x.T)
		sorts = append(sorts, u.D.SortOf(typ))
	}
	var bis []int
	for bi := range ls.blocks {
		bis = append(bis, bi)
	}
	sort.Ints(bis)
	for _, bi := range bis {
		for _, in := range f.fn.Blocks[bi].Instrs {
			for _, op := range in.Operands(nil) {
				if *op != nil {
					addIn(*op)
				}
			}
		}
	}
	u.scalar("$hv", "Int")
	ins = append(ins, u.hget(heap, "$hv"))
	sorts = append(sorts, "Int")
	key := fmt.Sprintf("loopsum:%s:%d", funcDisplayName(f.fn), f.loopOrd[h.Index])
	var canon map[ssa.Value]string
	if u.structKeys {
		// textually identical loops (up to names, and up to this frame's mirror substitution) get
		// the same summary functions wherever they occur
		var hsh string
		hsh, canon = u.W.structHashLoop(f.fn, ls, h, f.redirect)
		key = "loopsum#" + hsh
	}
	outName := func(v ssa.Value) string {
		if canon != nil {
			if c, ok := canon[v]; ok {
				return c
			}
		}
		return v.Name()
	}
	// exits
	type edge struct{ from, to int }
	var exits []edge
	for _, bi := range bis {
		for _, sb := range f.fn.Blocks[bi].Succs {
			if !ls.blocks[sb.Index] {
				exits = append(exits, edge{bi, sb.Index})
			}
		}
	}
	which := app(u.D.Fun(key+":exit", sorts, "Int"), ins...)
	w := u.define("loop.exit", "Int", which)
	u.emit(fmt.Sprintf("(assert (and (<= 0 %s) (< %s %d)))", w, w, maxInt(len(exits), 1)))
	mod := f.loopModSet(ls)
	after := u.newHeap(&Link{kind: "loop", parent: heap, mod: mod, keep: append([]string{}, f.localRefs...)})
	for _, bi := range bis {
		f.summarised[bi] = true
		f.endCur[bi] = cur
		f.endHeap[bi] = after
		f.reach[bi] = cur
	}
	for k, e := range exits {
		f.edgeOver[[2]int{e.from, e.to}] = u.define(fmt.Sprintf("loop.exit%d", k), "Bool", and(cur, fmt.Sprintf("(= %s %d)", w, k)))
	}
	// values flowing out of the loop
	for _, bi := range bis {
		for _, in := range f.fn.Blocks[bi].Instrs {
			v, ok := in.(ssa.Value)
			if !ok || v.Referrers() == nil {
				continue
			}
			used := false
			for _, r := range *v.Referrers() {
				if r.Block() != nil && !ls.blocks[r.Block().Index] {
					used = true
				}
			}
			if !used {
				continue
			}
			if tup, isTup := v.Type().(*types.Tuple); isTup {
				var vs []Val
				for i := 0; i < tup.Len(); i++ {
					fn := u.D.Fun(fmt.Sprintf("%s:%s#%d", key, outName(v), i), sorts, u.D.SortOf(tup.At(i).Type()))
					vs = append(vs, Val{T: u.define("sum", u.D.SortOf(tup.At(i).Type()), app(fn, ins...)), Typ: tup.At(i).Type()})
				}
				f.vals[v] = Val{Typ: v.Type(), Tup: vs}
				continue
			}
			if _, isPtr := v.Type().Underlying().(*types.Pointer); isPtr {
				if _, isFA := v.(*ssa.FieldAddr); isFA {
					continue
				}
				if _, isIA := v.(*ssa.IndexAddr); isIA {
					continue
				}
			}
			fn := u.D.Fun(fmt.Sprintf("%s:%s", key, outName(v)), sorts, u.D.SortOf(v.Type()))
			t := u.define("sum", u.D.SortOf(v.Type()), app(fn, ins...))
			u.assumeRange(t, v.Type())
			f.vals[v] = Val{T: t, Typ: v.Type()}
		}
	}
	// exits that jump straight back to the loop being iterated are arrivals at its next iteration
	for _, e := range exits {
		to := f.fn.Blocks[e.to]
		if to != f.iterHeader {
			continue
		}
		from := f.fn.Blocks[e.from]
		idx := -1
		for i, p := range to.Preds {
			if p == from {
				idx = i
			}
		}
		ph := map[*ssa.Phi]Val{}
		for _, in := range to.Instrs {
			phi, ok := in.(*ssa.Phi)
			if !ok {
				break
			}
			ph[phi] = f.val(phi.Edges[idx])
		}
		f.iterCont = append(f.iterCont, iterCont{cond: f.edgeOver[[2]int{e.from, e.to}], phis: ph, heap: after.clone()})
	}
	u.note("inner loops without invariant are summarised as deterministic functions of their live-in values (commute obligations)")
}

func maxInt(a, b int) int {
	if a > b {
		return a
	}
	return b
}
