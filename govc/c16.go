package main

// C16 table lemmas: the small-prime table of util/primes.go (read from the bigIntPrimes
// initialiser) is complete for every divisor 2..751 and contains nothing outside that range.
// Together with the code-level contract of PrimeNoSmallerThan752 ("false iff some table entry
// divides N") this is "a factor below 752 is reported iff there is one".

import (
	"fmt"
	"go/ast"
	"strconv"
	"strings"
)

func init() {
	extraEngines["C16"] = append(extraEngines["C16"], c16Lemmas)
	pkgInvCensus["primes"] = censusPrimesInit
}

// censusPrimesInit establishes primesWF(): bigIntPrimes is initialised by a composite literal of
// big.NewInt(<integer literal>) calls (the table the contracts read with tableInt / tableLen) and
// zero by big.NewInt(0).
func censusPrimesInit(w *World, r *Report) []*Obligation {
	pkg := w.ModPath + "/util"
	_, err := w.intTable(pkg, "bigIntPrimes")
	detail := ""
	if err != nil {
		detail = err.Error()
	}
	out := []*Obligation{censusObl("C16", "C16/util.bigIntPrimes/literal#1", "census", "v3/util/primes.go", "bigIntPrimes is a composite literal of big.NewInt(<integer literal>) calls", err == nil, detail)}
	zi, _ := w.findVarInit(pkg, "zero")
	okZ := false
	if call, ok := zi.(*ast.CallExpr); ok && len(call.Args) == 1 {
		if se, ok := call.Fun.(*ast.SelectorExpr); ok && se.Sel.Name == "NewInt" {
			if bl, ok := call.Args[0].(*ast.BasicLit); ok && bl.Value == "0" {
				okZ = true
			}
		}
	}
	out = append(out, censusObl("C16", "C16/util.zero/literal#1", "census", "v3/util/primes.go", "zero is initialised by big.NewInt(0)", okZ, "zero is not big.NewInt(0)"))
	return out
}

func c16Lemmas(w *World, r *Report) []*Obligation {
	pkg := w.ModPath + "/util"
	vals, err := w.intTable(pkg, "bigIntPrimes")
	if err != nil {
		w.fail("C16: %v", err)
		return nil
	}
	r.Extra["prime_table_entries"] = len(vals)
	r.Trusted = append(r.Trusted, "emod(a, b) of the big.Int contracts is the Euclidean remainder a mod b for b > 0 (math/big documentation); the table lemmas are stated over SMT mod")
	var out []*Obligation
	// range of the entries
	var bad []string
	var tab []int
	for _, v := range vals {
		n, err := strconv.Atoi(v)
		if err != nil || n < 2 || n > 751 {
			bad = append(bad, v)
		}
		tab = append(tab, n)
	}
	out = append(out, censusObl("C16", "C16/util.bigIntPrimes/range#1", "census", "v3/util/primes.go", "every table entry d satisfies 2 <= d <= 751 (so a reported factor is below 752)", len(bad) == 0, strings.Join(bad, ",")))
	// nobody writes the table or the shared zero
	for _, g := range []string{"bigIntPrimes", "zero"} {
		var ws []string
		for _, f := range w.writersOf(pkg, g) {
			if !strings.HasSuffix(f, ".init") {
				ws = append(ws, f)
			}
		}
		out = append(out, censusObl("C16", "C16/util."+g+"/nowriter#1", "census", "v3/util/primes.go", "no function other than the package initialiser writes util."+g, len(ws) == 0, strings.Join(ws, ", ")))
	}
	// completeness, one small query per divisor
	u := NewUnit(w, "util.bigIntPrimes", "C16")
	u.emit("(declare-const N Int)")
	u.modelTerms = []string{"N"}
	var obls []*Obligation
	for d := 2; d <= 751; d++ {
		var alts []string
		for _, t := range tab {
			if t <= d && t >= 2 {
				alts = append(alts, fmt.Sprintf("(= (mod N %d) 0)", t))
			}
		}
		goal := implies(fmt.Sprintf("(= (mod N %d) 0)", d), or(alts...))
		o := u.oblige("complete", "util.bigIntPrimes", "true", goal, "v3/util/primes.go", fmt.Sprintf("a modulus divisible by %d is divisible by a table entry", d))
		obls = append(obls, o)
	}
	SolveAll(obls, r.QDir, r.Timeout, r.Tier == "thorough", 8)
	r.Units = append(r.Units, u)
	return append(out, obls...)
}
