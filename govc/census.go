package main

// Census obligations: closed facts about declarations (composite-literal initialisers,
// "no other writer" of a package-level variable), generated from the AST / SSA of the
// current tree. Where a formula is involved it is still discharged by the solver.

import (
	"sort"
	"fmt"
	"go/ast"
	"go/constant"
	"go/token"
	"go/types"
	"strconv"
	"strings"
	"time"

	"golang.org/x/tools/go/ssa"
)

func init() {
	extraEngines["C14"] = append(extraEngines["C14"], censusStatusMap)
}

// findVarInit returns the initialiser expression of a package-level variable.
func (w *World) findVarInit(pkgPath, name string) (ast.Expr, *token.FileSet) {
	for _, p := range w.Pkgs {
		if p.PkgPath != pkgPath {
			continue
		}
		for _, f := range p.Syntax {
			for _, d := range f.Decls {
				gd, ok := d.(*ast.GenDecl)
				if !ok || gd.Tok != token.VAR {
					continue
				}
				for _, sp := range gd.Specs {
					vs := sp.(*ast.ValueSpec)
					for i, n := range vs.Names {
						if n.Name == name && i < len(vs.Values) {
							return vs.Values[i], p.Fset
						}
					}
				}
			}
		}
	}
	return nil, nil
}

// writersOf lists the functions that store to (or update a map held by) a global.
func (w *World) writersOf(pkgPath, name string) []string {
	var out []string
	sp := w.ssaPkg(pkgPath)
	if sp == nil {
		return nil
	}
	g, _ := sp.Members[name].(*ssa.Global)
	if g == nil {
		return nil
	}
	for fn := range allFunctions(w) {
		if fn.Blocks == nil {
			continue
		}
		for _, b := range fn.Blocks {
			for _, in := range b.Instrs {
				switch x := in.(type) {
				case *ssa.Store:
					if x.Addr == g {
						out = append(out, fn.String())
					}
				case *ssa.MapUpdate:
					if ld, ok := x.Map.(*ssa.UnOp); ok && ld.X == g {
						out = append(out, fn.String())
					}
				}
			}
		}
	}
	return out
}

func allFunctions(w *World) map[*ssa.Function]bool {
	if w.allFns != nil {
		return w.allFns
	}
	fns := map[*ssa.Function]bool{}
	var add func(f *ssa.Function)
	add = func(f *ssa.Function) {
		if f == nil || fns[f] {
			return
		}
		fns[f] = true
		for _, a := range f.AnonFuncs {
			add(a)
		}
	}
	for _, p := range w.Prog.AllPackages() {
		if !strings.HasPrefix(p.Pkg.Path(), w.ModPath) {
			continue
		}
		for _, m := range p.Members {
			switch x := m.(type) {
			case *ssa.Function:
				add(x)
			case *ssa.Type:
				for _, t := range []types.Type{x.Type(), types.NewPointer(x.Type())} {
					ms := w.Prog.MethodSets.MethodSet(t)
					for i := 0; i < ms.Len(); i++ {
						add(w.Prog.MethodValue(ms.At(i)))
					}
				}
			}
		}
	}
	w.allFns = fns
	return fns
}

func censusObl(prop, name, kind, src, note string, ok bool, detail string) *Obligation {
	o := &Obligation{Name: name, Prop: prop, Kind: kind, Src: src, Note: note, Solver: "census", Status: "proved"}
	if !ok {
		o.Status = "refuted"
		o.Output = detail
	}
	return o
}

// censusStatusMap: StatusLabelToLintStatus is initialised to exactly {label(s) -> s | 0<=s<=7}
// and nothing else ever writes to it, so statusMapWF() is an invariant.
func censusStatusMap(w *World, r *Report) []*Obligation {
	pkg := w.ModPath + "/lint"
	var out []*Obligation
	init, fset := w.findVarInit(pkg, "StatusLabelToLintStatus")
	cl, ok := init.(*ast.CompositeLit)
	if !ok {
		return []*Obligation{censusObl("C14", "C14/lint.StatusLabelToLintStatus/init#1", "census", "", "initialiser is a map literal", false, "StatusLabelToLintStatus is not initialised by a composite literal")}
	}
	u := NewUnit(w, "lint.StatusLabelToLintStatus", "C14")
	heap := u.newHeap(&Link{kind: "entry"})
	tp := w.pkgByPath(pkg)
	env := &SpecEnv{u: u, pkg: tp, vars: map[string]Val{}, heap: heap, oldHeap: heap}
	gv, _ := tp.Scope().Lookup("StatusLabelToLintStatus").(*types.Var)
	mt := gv.Type().Underlying().(*types.Map)
	dom, val := u.mapArrs(mt)
	ref := u.alloc(heap, "statusmap")
	u.hset(heap, dom, sto(u.hget(heap, dom), ref, u.D.ConstArray("Str", "Bool", "false")))
	src := posStr(fset, cl.Pos())
	for _, el := range cl.Elts {
		kv, ok := el.(*ast.KeyValueExpr)
		if !ok {
			continue
		}
		k, err1 := env.eval(types.ExprString(kv.Key))
		v, err2 := env.eval(types.ExprString(kv.Value))
		if err1 != nil || err2 != nil {
			out = append(out, censusObl("C14", "C14/lint.StatusLabelToLintStatus/init#1", "census", src, "entries are <status>.String(): <status>", false, fmt.Sprint(err1, err2)))
			return out
		}
		d := u.hget(heap, dom)
		vv := u.hget(heap, val)
		u.hset(heap, dom, sto(d, ref, sto(sel(d, ref), k.T, "true")))
		u.hset(heap, val, sto(vv, ref, sto(sel(vv, ref), k.T, v.T)))
	}
	garr, gsort := u.globalCell(gv)
	u.store(heap, &Loc{Arr: garr, Sort: gsort, Typ: gv.Type()}, ref)
	t, err := env.evalBool("statusMapWF()")
	if err != nil {
		w.fail("census C14: %v", err)
		return out
	}
	o := u.oblige("init", "lint.StatusLabelToLintStatus", "true", t, src, "the initialiser establishes statusMapWF(): one entry per status, keyed by its own label")
	SolveAll([]*Obligation{o}, r.QDir, r.Timeout, r.Tier == "thorough", 1)
	r.Units = append(r.Units, u)
	out = append(out, o)
	ws := w.writersOf(pkg, "StatusLabelToLintStatus")
	var bad []string
	for _, f := range ws {
		if !strings.HasSuffix(f, ".init") {
			bad = append(bad, f)
		}
	}
	// beyond direct writes: the map is exported, any package may hand it to code that changes it
	// (delete through a parameter, a helper that filters "its" argument in place). The read-only
	// census of the package invariants follows every use of the loaded value through the module.
	if gvar, ok := w.pkgByPath(pkg).Scope().Lookup("StatusLabelToLintStatus").(*types.Var); ok {
		bad = append(bad, w.globalReadOnly(gvar)...)
	}
	out = append(out, censusObl("C14", "C14/lint.StatusLabelToLintStatus/nowriter#1", "census", src, "outside the package initialiser StatusLabelToLintStatus is only read anywhere in the module (looked up, ranged over, measured; never stored to, deleted from, or handed to a call)", len(bad) == 0, strings.Join(bad, "; ")))
	return out
}

func init() {
	extraEngines["C14"] = append(extraEngines["C14"], censusJSONTags)
}

// jsonKey returns the JSON object key of a struct field ("" = skipped).
func jsonKey(f *types.Var, tag string) string {
	if !f.Exported() {
		return ""
	}
	st := reflectTag(tag, "json")
	name := strings.Split(st, ",")[0]
	if st == "-" {
		return ""
	}
	if name == "" {
		return f.Name()
	}
	return name
}

func reflectTag(tag, key string) string {
	// minimal struct-tag parser (same conventions as reflect.StructTag.Get)
	for tag != "" {
		i := 0
		for i < len(tag) && tag[i] == ' ' {
			i++
		}
		tag = tag[i:]
		if tag == "" {
			break
		}
		i = 0
		for i < len(tag) && tag[i] > ' ' && tag[i] != ':' && tag[i] != '"' {
			i++
		}
		if i == 0 || i+1 >= len(tag) || tag[i] != ':' || tag[i+1] != '"' {
			break
		}
		name := tag[:i]
		tag = tag[i+1:]
		i = 1
		for i < len(tag) && tag[i] != '"' {
			if tag[i] == '\\' {
				i++
			}
			i++
		}
		if i >= len(tag) {
			break
		}
		val := tag[1:i]
		tag = tag[i+1:]
		if name == key {
			return val
		}
	}
	return ""
}

// censusJSONTags: the fields the property names are encoded under distinct keys
// (encoding/json matches keys case-insensitively when decoding) and are not skipped.
func censusJSONTags(w *World, r *Report) []*Obligation {
	type want struct {
		pkg, typ string
		fields   map[string]string // field -> required Go kind ("" = any)
		skipped  []string
	}
	wants := []want{
		{w.ModPath, "ResultSet", map[string]string{"Version": "int64", "Results": "", "NoticesPresent": "bool", "WarningsPresent": "bool", "ErrorsPresent": "bool", "FatalsPresent": "bool"}, nil},
		{w.ModPath + "/lint", "LintResult", map[string]string{"Status": "github.com/zmap/zlint/v3/lint.LintStatus", "Details": "string"}, []string{"LintMetadata"}},
		{w.ModPath + "/lint", "LintMetadata", map[string]string{"Name": "string", "Description": "string", "Citation": "string", "Source": "github.com/zmap/zlint/v3/lint.LintSource"}, nil},
	}
	var out []*Obligation
	for _, wt := range wants {
		p := w.pkgByPath(wt.pkg)
		name := fmt.Sprintf("C14/%s.%s/jsontags#1", p.Name(), wt.typ)
		tn, _ := p.Scope().Lookup(wt.typ).(*types.TypeName)
		if tn == nil {
			out = append(out, censusObl("C14", name, "census", "", "type exists", false, "type "+wt.typ+" not found"))
			continue
		}
		st, ok := tn.Type().Underlying().(*types.Struct)
		if !ok {
			out = append(out, censusObl("C14", name, "census", "", "type is a struct", false, ""))
			continue
		}
		keys := map[string]string{}
		var problems []string
		for i := 0; i < st.NumFields(); i++ {
			f := st.Field(i)
			k := jsonKey(f, st.Tag(i))
			if kind, needed := wt.fields[f.Name()]; needed {
				if k == "" {
					problems = append(problems, "field "+f.Name()+" is not encoded")
				}
				if kind != "" && types.TypeString(f.Type(), nil) != kind {
					problems = append(problems, fmt.Sprintf("field %s has type %s, want %s", f.Name(), f.Type(), kind))
				}
			}
			if k == "" || f.Embedded() {
				continue
			}
			lk := strings.ToLower(k)
			if other, dup := keys[lk]; dup {
				problems = append(problems, fmt.Sprintf("fields %s and %s share the JSON key %q", other, f.Name(), k))
			}
			keys[lk] = f.Name()
		}
		for fn := range wt.fields {
			found := false
			for i := 0; i < st.NumFields(); i++ {
				if st.Field(i).Name() == fn {
					found = true
				}
			}
			if !found {
				problems = append(problems, "field "+fn+" is missing")
			}
		}
		for _, sk := range wt.skipped {
			for i := 0; i < st.NumFields(); i++ {
				if st.Field(i).Name() == sk && jsonKey(st.Field(i), st.Tag(i)) != "" {
					problems = append(problems, "field "+sk+" must stay out of the encoding (json:\"-\")")
				}
			}
		}
		out = append(out, censusObl("C14", name, "census", posStr(w.Fset, tn.Pos()), "JSON keys of "+wt.typ+": named fields encoded, pairwise distinct (case-insensitively), expected kinds", len(problems) == 0, strings.Join(problems, "; ")))
		// The round trip of these structs is encoding/json's own struct encoding (assumed contract:
		// escaping, U+FFFD, field-by-field decoding). A hand-written (un)marshaler on the type or its
		// pointer replaces that contract and is outside it until it carries one of its own.
		var custom []string
		for _, t := range []types.Type{tn.Type(), types.NewPointer(tn.Type())} {
			ms := types.NewMethodSet(t)
			for _, mn := range []string{"MarshalJSON", "UnmarshalJSON", "MarshalText", "UnmarshalText"} {
				if sel := ms.Lookup(nil, mn); sel != nil {
					if _, isFunc := sel.Obj().(*types.Func); isFunc {
						custom = append(custom, types.TypeString(t, func(*types.Package) string { return "" })+"."+mn)
					}
				}
			}
		}
		sort.Strings(custom)
		out = append(out, censusObl("C14", fmt.Sprintf("C14/%s.%s/codec#1", p.Name(), wt.typ), "census", posStr(w.Fset, tn.Pos()),
			wt.typ+" is encoded and decoded by encoding/json's struct codec (no MarshalJSON / UnmarshalJSON / MarshalText / UnmarshalText on the type or its pointer)",
			len(custom) == 0, "custom codec outside the assumed contract of encoding/json: "+strings.Join(custom, ", ")))
	}
	return out
}


// intTable reads the integers of a composite-literal initialiser: int literals or big.NewInt(K).
func (w *World) intTable(pkgPath, name string) ([]string, error) {
	init, _ := w.findVarInit(pkgPath, name)
	cl, ok := init.(*ast.CompositeLit)
	if !ok {
		return nil, fmt.Errorf("%s is not initialised by a composite literal", name)
	}
	var out []string
	for _, el := range cl.Elts {
		x := el
		if call, ok := x.(*ast.CallExpr); ok && len(call.Args) == 1 {
			if se, ok := call.Fun.(*ast.SelectorExpr); ok && se.Sel.Name == "NewInt" {
				x = call.Args[0]
			}
		}
		bl, ok := x.(*ast.BasicLit)
		if !ok || bl.Kind != token.INT {
			return nil, fmt.Errorf("%s: element %s is not an integer literal", name, types.ExprString(el))
		}
		out = append(out, bl.Value)
	}
	return out, nil
}

func init() {
	extraEngines["C18"] = append(extraEngines["C18"], censusTLD)
	pkgInvCensus["tld"] = censusTLD
}

// censusTLD: every entry of the generated delegation table is keyed by its own lower-case
// name, has a parseable delegation date and an empty or parseable removal date not earlier
// than the delegation; nobody writes the table. Dates are evaluated with Go's time.Parse
// (the function the code calls); this establishes tldWF().
func censusTLD(w *World, r *Report) []*Obligation {
	pkg := w.ModPath + "/util"
	init, fset := w.findVarInit(pkg, "tldMap")
	cl, ok := init.(*ast.CompositeLit)
	src := ""
	if ok {
		src = posStr(fset, cl.Pos())
	}
	if !ok {
		return []*Obligation{censusObl("C18", "C18/util.tldMap/entries#1", "census", src, "tldMap is a map literal", false, "tldMap is not initialised by a composite literal")}
	}
	layout := "2006-01-02"
	if c, ok := w.pkgByPath(pkg).Scope().Lookup("GTLDPeriodDateFormat").(*types.Const); ok {
		layout = constant.StringVal(c.Val())
	}
	var badKey, badDeleg, badRem []string
	n := 0
	withRemoval := 0
	for _, el := range cl.Elts {
		kv, ok := el.(*ast.KeyValueExpr)
		if !ok {
			badKey = append(badKey, "non key-value element")
			continue
		}
		n++
		key := strLitValue(kv.Key)
		fields := map[string]string{}
		if v, ok := kv.Value.(*ast.CompositeLit); ok {
			for _, f := range v.Elts {
				if fkv, ok := f.(*ast.KeyValueExpr); ok {
					if id, ok := fkv.Key.(*ast.Ident); ok {
						fields[id.Name] = strLitValue(fkv.Value)
					}
				}
			}
		}
		if key == "\x00" || fields["GTLD"] != key || strings.ToLower(key) != key || key == "" {
			badKey = append(badKey, key)
		}
		d, err := time.Parse(layout, fields["DelegationDate"])
		if err != nil {
			badDeleg = append(badDeleg, key+":"+fields["DelegationDate"])
		}
		if rm := fields["RemovalDate"]; rm != "" {
			withRemoval++
			t, err2 := time.Parse(layout, rm)
			if err2 != nil || (err == nil && t.Before(d)) {
				badRem = append(badRem, key+":"+rm)
			}
		}
	}
	r.Extra["tld_entries"] = n
	r.Extra["tld_entries_with_removal_date"] = withRemoval
	r.Trusted = append(r.Trusted, "time.Parse evaluated by the generator on the dates of the delegation table (the same function the code calls)")
	var out []*Obligation
	out = append(out, censusObl("C18", "C18/util.tldMap/keys#1", "census", src, fmt.Sprintf("each of the %d entries is keyed by its own lower-case GTLD name", n), len(badKey) == 0 && n > 0, strings.Join(badKey, ",")))
	out = append(out, censusObl("C18", "C18/util.tldMap/delegation#1", "census", src, "every delegation date parses under the table's date layout", len(badDeleg) == 0, strings.Join(badDeleg, ",")))
	out = append(out, censusObl("C18", "C18/util.tldMap/removal#1", "census", src, "every removal date is empty, or parses and is not earlier than the delegation date", len(badRem) == 0, strings.Join(badRem, ",")))
	var ws []string
	for _, f := range w.writersOf(pkg, "tldMap") {
		if !strings.HasSuffix(f, ".init") {
			ws = append(ws, f)
		}
	}
	out = append(out, censusObl("C18", "C18/util.tldMap/nowriter#1", "census", src, "no function other than the package initialiser writes util.tldMap", len(ws) == 0, strings.Join(ws, ", ")))
	return out
}

func strLitValue(x ast.Expr) string {
	if bl, ok := x.(*ast.BasicLit); ok && bl.Kind == token.STRING {
		if s, err := strconv.Unquote(bl.Value); err == nil {
			return s
		}
	}
	return "\x00"
}
