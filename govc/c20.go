package main

// Relational obligations for C20 (DESIGN §2.7 `equiv`): for every declared pair of lints that
// implement the same requirement twice, both Execute bodies (the real SSA) are executed
// symbolically on one certificate from one heap, both CheckApplies assumed true. Loops and
// helper calls become deterministic uninterpreted functions of their live-in values, NAMED BY
// THE STRUCTURE OF THE CODE (a canonical serialisation of the SSA), so that textually identical
// code in two packages - or code that is identical up to the declared mirror substitution
// (issuerAltName fields for subjectAltName fields, issuer for subject) - denotes the same
// function. The obligation is the relation the property demands between the two statuses.
// "Identical code on equal inputs gives equal results" is the congruence meta-lemma of
// /verif/spec/meta.lean; that lint code is deterministic is C05.

import (
	"crypto/sha256"
	"fmt"
	"go/types"
	"sort"
	"strings"

	"golang.org/x/tools/go/ssa"
)

func init() {
	extraEngines["C20"] = append(extraEngines["C20"], c20Equiv)
}

// mirror: a substitution applied to one member of a pair.
type mirror struct {
	name    string
	fields  map[string]string // "<struct type>.<field>" -> field of the same struct
	globals map[string]string // "<pkg path>.<name>" -> name in the same package
}

func (m *mirror) field(t types.Type, s *types.Struct, i int) int {
	if m == nil || len(m.fields) == 0 {
		return i
	}
	to, ok := m.fields[shortType(t)+"."+s.Field(i).Name()]
	if !ok {
		return i
	}
	for j := 0; j < s.NumFields(); j++ {
		if s.Field(j).Name() == to && types.Identical(s.Field(j).Type(), s.Field(i).Type()) {
			return j
		}
	}
	return i
}

func (m *mirror) global(g *types.Var) *types.Var {
	if m == nil || g == nil || g.Pkg() == nil || len(m.globals) == 0 {
		return g
	}
	to, ok := m.globals[g.Pkg().Name()+"."+g.Name()]
	if !ok {
		return g
	}
	if o, ok := g.Pkg().Scope().Lookup(to).(*types.Var); ok && types.Identical(o.Type(), g.Type()) {
		return o
	}
	return g
}

func (m *mirror) key() string {
	if m == nil {
		return ""
	}
	return m.name
}

// ---------- structural hashing of SSA ----------

type structHasher struct {
	w      *World
	m      *mirror
	active map[*ssa.Function]bool
}

func (w *World) calleeKey(fn *ssa.Function, m *mirror) string {
	if fn == nil {
		return "?"
	}
	if fn.Blocks == nil || !w.inModule(fn) || fn.Pkg == nil {
		return fn.String()
	}
	// helpers private to a lint package exist once per package: identify them by their code.
	// Shared helpers (util, lint) are identified by name unless the mirror touches what they read.
	pk := fn.Pkg.Pkg.Path()
	if strings.Contains(pk, "/lints/") {
		h, _ := w.structHash(fn, m)
		return "S#" + h
	}
	if m != nil && w.readsMirrored(fn, m, map[*ssa.Function]bool{}) {
		h, _ := w.structHash(fn, m)
		return fn.String() + "@" + m.key() + "#" + h
	}
	return fn.String()
}

// readsMirrored: the function (transitively, inside the module) reads a mirrored field or global.
func (w *World) readsMirrored(fn *ssa.Function, m *mirror, seen map[*ssa.Function]bool) bool {
	if fn == nil || fn.Blocks == nil || seen[fn] {
		return false
	}
	seen[fn] = true
	for _, b := range fn.Blocks {
		for _, in := range b.Instrs {
			switch x := in.(type) {
			case *ssa.FieldAddr:
				st0 := x.X.Type().Underlying().(*types.Pointer).Elem()
				if s, ok := st0.Underlying().(*types.Struct); ok && m.field(st0, s, x.Field) != x.Field {
					return true
				}
			case *ssa.Field:
				if s, ok := x.X.Type().Underlying().(*types.Struct); ok && m.field(x.X.Type(), s, x.Field) != x.Field {
					return true
				}
			case *ssa.Call:
				if c, ok := x.Call.Value.(*ssa.Function); ok && w.inModule(c) && w.readsMirrored(c, m, seen) {
					return true
				}
			}
			for _, op := range in.Operands(nil) {
				if g, ok := (*op).(*ssa.Global); ok {
					if gv, ok := g.Object().(*types.Var); ok && m.global(gv) != gv {
						return true
					}
				}
			}
		}
	}
	return false
}

func (w *World) structHash(fn *ssa.Function, m *mirror) (string, map[ssa.Value]string) {
	key := fmt.Sprintf("%p|%s", fn, m.key())
	if w.structCache == nil {
		w.structCache = map[string]string{}
	}
	if h, ok := w.structCache[key]; ok {
		return h, nil
	}
	w.structCache[key] = "rec:" + fn.Name() // recursion guard
	sh := &structHasher{w: w, m: m}
	scope := map[int]bool{}
	for _, b := range fn.Blocks {
		scope[b.Index] = true
	}
	txt, canon := sh.serialise(fn, scope, false)
	sum := sha256.Sum256([]byte(txt))
	h := fmt.Sprintf("%x", sum[:8])
	w.structCache[key] = h
	return h, canon
}

func (w *World) structHashLoop(fn *ssa.Function, ls *loopState, header *ssa.BasicBlock, m *mirror) (string, map[ssa.Value]string) {
	sh := &structHasher{w: w, m: m}
	txt, canon := sh.serialise(fn, ls.blocks, true)
	sum := sha256.Sum256([]byte(txt))
	return fmt.Sprintf("%x", sum[:8]), canon
}

func qual(p *types.Package) string { return p.Path() }

// serialise: canonical text of the instructions of the blocks in scope. Values defined in scope
// are numbered by position; values from outside are numbered by first use (loop mode) or are
// parameters (function mode).
func (sh *structHasher) serialise(fn *ssa.Function, scope map[int]bool, loopMode bool) (string, map[ssa.Value]string) {
	var bis []int
	for bi := range scope {
		bis = append(bis, bi)
	}
	sort.Ints(bis)
	ord := map[int]int{}
	for k, bi := range bis {
		ord[bi] = k
	}
	canon := map[ssa.Value]string{}
	for _, bi := range bis {
		for k, in := range fn.Blocks[bi].Instrs {
			if v, ok := in.(ssa.Value); ok {
				canon[v] = fmt.Sprintf("%d.%d", ord[bi], k)
			}
		}
	}
	outside := map[ssa.Value]string{}
	ref := func(v ssa.Value) string {
		if v == nil {
			return "nil"
		}
		if c, ok := canon[v]; ok {
			return "v" + c
		}
		switch x := v.(type) {
		case *ssa.Const:
			val := "nil"
			if x.Value != nil {
				val = x.Value.ExactString()
			}
			return "c:" + types.TypeString(x.Type(), qual) + ":" + val
		case *ssa.Global:
			if gv, ok := x.Object().(*types.Var); ok {
				gv = sh.m.global(gv)
				return "g:" + gv.Pkg().Path() + "." + gv.Name()
			}
			return "g:" + x.String()
		case *ssa.Function:
			return "f:" + sh.w.calleeKey(x, sh.m)
		case *ssa.Builtin:
			return "b:" + x.Name()
		case *ssa.FreeVar:
			for i, fv := range fn.FreeVars {
				if fv == x {
					return fmt.Sprintf("fv%d", i)
				}
			}
		case *ssa.Parameter:
			if !loopMode {
				for i, p := range fn.Params {
					if p == x {
						return fmt.Sprintf("p%d", i)
					}
				}
			}
		}
		if o, ok := outside[v]; ok {
			return o
		}
		o := fmt.Sprintf("in%d", len(outside))
		outside[v] = o
		return o
	}
	blk := func(b *ssa.BasicBlock) string {
		if k, ok := ord[b.Index]; ok {
			return fmt.Sprintf("B%d", k)
		}
		return "Bext"
	}
	var sb strings.Builder
	ty := func(t types.Type) string { return types.TypeString(t, qual) }
	for _, bi := range bis {
		b := fn.Blocks[bi]
		fmt.Fprintf(&sb, "%s:\n", blk(b))
		for _, in := range b.Instrs {
			switch x := in.(type) {
			case *ssa.DebugRef:
				continue
			case *ssa.Phi:
				fmt.Fprintf(&sb, " phi")
				for i, e := range x.Edges {
					fmt.Fprintf(&sb, " [%s %s]", blk(b.Preds[i]), ref(e))
				}
			case *ssa.FieldAddr:
				st0 := x.X.Type().Underlying().(*types.Pointer).Elem()
				s := st0.Underlying().(*types.Struct)
				j := sh.m.field(st0, s, x.Field)
				fmt.Fprintf(&sb, " fieldaddr %s.%s %s", shortTypeNoRecv(st0), s.Field(j).Name(), ref(x.X))
			case *ssa.Field:
				s := x.X.Type().Underlying().(*types.Struct)
				j := sh.m.field(x.X.Type(), s, x.Field)
				fmt.Fprintf(&sb, " field %s.%s %s", shortTypeNoRecv(x.X.Type()), s.Field(j).Name(), ref(x.X))
			case *ssa.BinOp:
				fmt.Fprintf(&sb, " binop %s %s %s", x.Op, ref(x.X), ref(x.Y))
			case *ssa.UnOp:
				fmt.Fprintf(&sb, " unop %s %v %s", x.Op, x.CommaOk, ref(x.X))
			case *ssa.Call:
				c := x.Call
				if c.IsInvoke() {
					fmt.Fprintf(&sb, " invoke %s.%s %s", ty(c.Value.Type()), c.Method.Name(), ref(c.Value))
				} else {
					fmt.Fprintf(&sb, " call %s", ref(c.Value))
				}
				for _, a := range c.Args {
					fmt.Fprintf(&sb, " %s", ref(a))
				}
			case *ssa.If:
				fmt.Fprintf(&sb, " if %s %s %s", ref(x.Cond), blk(b.Succs[0]), blk(b.Succs[1]))
			case *ssa.Jump:
				fmt.Fprintf(&sb, " jump %s", blk(b.Succs[0]))
			case *ssa.Return:
				fmt.Fprintf(&sb, " return")
				for _, r := range x.Results {
					fmt.Fprintf(&sb, " %s", ref(r))
				}
			case *ssa.TypeAssert:
				fmt.Fprintf(&sb, " typeassert %s %v %s", ty(x.AssertedType), x.CommaOk, ref(x.X))
			case *ssa.Extract:
				fmt.Fprintf(&sb, " extract %d %s", x.Index, ref(x.Tuple))
			case *ssa.Alloc:
				fmt.Fprintf(&sb, " alloc %s", ty(x.Type()))
			case *ssa.Store:
				fmt.Fprintf(&sb, " store %s %s", ref(x.Addr), ref(x.Val))
			case *ssa.Lookup:
				fmt.Fprintf(&sb, " lookup %v %s %s", x.CommaOk, ref(x.X), ref(x.Index))
			case *ssa.Slice:
				fmt.Fprintf(&sb, " slice %s %s %s %s", ref(x.X), ref(x.Low), ref(x.High), ref(x.Max))
			default:
				// generic: instruction kind, result type, operands
				fmt.Fprintf(&sb, " %T", in)
				if v, ok := in.(ssa.Value); ok {
					fmt.Fprintf(&sb, " %s", ty(v.Type()))
				}
				for _, op := range in.Operands(nil) {
					fmt.Fprintf(&sb, " %s", ref(*op))
				}
			}
			sb.WriteByte('\n')
		}
	}
	return sb.String(), canon
}

// shortTypeNoRecv: type name; the concrete lint types (one empty struct per lint) are all "lint".
func shortTypeNoRecv(t types.Type) string {
	return types.TypeString(t, qual)
}

// ---------- the pairs table ----------

type c20Pair struct {
	rel    string // same | finding | implies
	a, b   string
	hyp    string // spec function name or "-"
	mirror string // mirror name or "-"
	line   string
}

func (w *World) c20Pairs() ([]c20Pair, map[string]*mirror) {
	var pairs []c20Pair
	mirrors := map[string]*mirror{}
	for _, l := range w.CS.Tables["c20mirrors"] {
		fs := strings.Fields(l)
		// <name> field <Type.Field> <Field> | <name> global <pkg.Name> <Name>
		if len(fs) != 4 {
			w.fail("c20mirrors: bad line %q", l)
			continue
		}
		m := mirrors[fs[0]]
		if m == nil {
			m = &mirror{name: fs[0], fields: map[string]string{}, globals: map[string]string{}}
			mirrors[fs[0]] = m
		}
		switch fs[1] {
		case "field":
			m.fields[fs[2]] = fs[3]
		case "global":
			m.globals[fs[2]] = fs[3]
		default:
			w.fail("c20mirrors: bad line %q", l)
		}
	}
	for _, l := range w.CS.Tables["c20pairs"] {
		fs := strings.Fields(l)
		if len(fs) != 5 {
			w.fail("c20pairs: bad line %q (want: relation lintA lintB hypothesis mirror)", l)
			continue
		}
		pairs = append(pairs, c20Pair{rel: fs[0], a: fs[1], b: fs[2], hyp: fs[3], mirror: fs[4], line: l})
	}
	return pairs, mirrors
}

// runLintSide executes CheckApplies and Execute of one lint on the shared certificate from the
// shared initial heap; returns (applies, some normal return reached, status term).
func (w *World) runLintSide(u *Unit, li *LintInfo, side string, cert Val, heap0 *Heap, m *mirror) (applies, returns, status string, err string) {
	mk := func(fn *ssa.Function) (*Frame, []Val) {
		f := u.newFrame(fn, nil, 0)
		f.fname = u.Name
		f.summarise = true
		f.redirect = m
		var args []Val
		for i, p := range fn.Params {
			var v Val
			if i == len(fn.Params)-1 {
				v = cert
			} else {
				x := u.fresh("recv."+side, u.D.SortOf(p.Type()))
				u.emit("(assert (> " + x + " 0))")
				v = Val{T: x, Typ: p.Type()}
			}
			f.vals[p] = v
			args = append(args, v)
		}
		return f, args
	}
	applies = "true"
	var recv Val
	if ca := li.CheckApplies; ca != nil && ca.Blocks != nil {
		g, args := mk(ca)
		if len(args) > 1 {
			recv = args[0]
		}
		g.run(heap0.clone(), "true")
		var conds []string
		for i, c := range g.retConds {
			conds = append(conds, and(c, g.retVals[i][0].T))
		}
		applies = u.define("applies."+side, "Bool", or(conds...))
	}
	ex, args := mk(li.Execute)
	if recv.T != "" && len(args) > 1 {
		ex.vals[li.Execute.Params[0]] = recv
	}
	ex.run(heap0.clone(), "true")
	if len(ex.retConds) == 0 {
		return "", "", "", "no normal return path"
	}
	lrT := li.Execute.Signature.Results().At(0).Type()
	pt, ok := lrT.Underlying().(*types.Pointer)
	if !ok {
		return "", "", "", "Execute does not return a pointer"
	}
	statusField := -1
	if s, ok := pt.Elem().Underlying().(*types.Struct); ok {
		for i := 0; i < s.NumFields(); i++ {
			if s.Field(i).Name() == "Status" {
				statusField = i
			}
		}
	}
	if statusField < 0 {
		return "", "", "", "result type has no Status field"
	}
	arr, _ := u.fieldArr(pt.Elem(), statusField)
	term := "0"
	var rc []string
	for i := len(ex.retConds) - 1; i >= 0; i-- {
		c := u.define("ret."+side, "Bool", ex.retConds[i])
		rc = append(rc, c)
		st := sel(u.hget(ex.retHeaps[i], arr), ex.retVals[i][0].T)
		term = ite(c, st, term)
	}
	status = u.define("status."+side, "Int", term)
	returns = u.define("returns."+side, "Bool", or(rc...))
	return applies, returns, status, ""
}

func c20Equiv(w *World, r *Report) []*Obligation {
	pairs, mirrors := w.c20Pairs()
	byName := map[string]*LintInfo{}
	for _, li := range w.Lints() {
		byName[li.Name] = li
	}
	var out []*Obligation
	var solve []*Obligation
	declared := 0
	for _, p := range pairs {
		declared++
		name := fmt.Sprintf("C20/pairs/equiv#%s~%s", p.a, p.b)
		la, lb := byName[p.a], byName[p.b]
		if la == nil || lb == nil || la.Execute == nil || lb.Execute == nil {
			missing := p.a
			if la != nil {
				missing = p.b
			}
			o := &Obligation{Name: name, Prop: "C20", Kind: "equiv", Status: "refuted", Solver: "census", Note: "declared pair: lint " + missing + " is not registered (renamed or removed without its twin?)", Output: "lint " + missing + " not found in the registration census"}
			out = append(out, o)
			continue
		}
		var m *mirror
		if p.mirror != "-" {
			m = mirrors[p.mirror]
			if m == nil {
				w.fail("c20pairs: unknown mirror %s", p.mirror)
				continue
			}
		}
		func() {
			u := NewUnit(w, "pair:"+p.a+"~"+p.b, "C20")
			u.sweep = true
			u.structKeys = true
			var errText string
			defer func() {
				if rec := recover(); rec != nil {
					errText = fmt.Sprint(rec)
				}
				if errText != "" {
					out = append(out, &Obligation{Name: name, Prop: "C20", Kind: "equiv", Status: "unknown", Note: "symbolic execution of the pair failed: " + clipText(errText), Src: la.Site})
				}
			}()
			heap := u.newHeap(&Link{kind: "entry"})
			u.scalar("$top", "Int")
			u.top0 = u.hget(heap, "$top")
			ct := la.Execute.Params[len(la.Execute.Params)-1].Type()
			cx := u.fresh("param.c", u.D.SortOf(ct))
			cert := Val{T: cx, Typ: ct}
			u.assumeRange(cx, ct)
			u.wellFormedLoaded(heap, cx, ct)
			u.emit("(assert (not (= " + cx + " 0)))")
			u.modelTerms = append(u.modelTerms, cx)
			// hypothesis of the pair ("the same content")
			if p.hyp != "-" {
				sp := w.CS.Specs["::"+p.hyp]
				if sp == nil {
					errText = "unknown hypothesis " + p.hyp
					return
				}
				env := &SpecEnv{u: u, pkg: w.pkgByPath(sp.Pkg), vars: map[string]Val{"c": cert}, heap: heap, oldHeap: heap}
				t, err := env.evalBool(p.hyp + "(c)")
				if err != nil {
					errText = "hypothesis " + p.hyp + ": " + err.Error()
					return
				}
				u.assume("true", t)
			}
			apA, retA, stA, e1 := w.runLintSide(u, la, "A", cert, heap, nil)
			if e1 != "" {
				errText = p.a + ": " + e1
				return
			}
			apB, retB, stB, e2 := w.runLintSide(u, lb, "B", cert, heap, m)
			if e2 != "" {
				errText = p.b + ": " + e2
				return
			}
			guard := u.define("bothrun", "Bool", and(apA, apB, retA, retB))
			finding := func(s string) string { return "(>= " + s + " 4)" }
			var goal, what string
			switch p.rel {
			case "same":
				goal, what = eq(stA, stB), "the same status"
			case "finding":
				goal, what = eq(finding(stA), finding(stB)), "finding versus no finding"
			case "implies":
				goal, what = implies(eq(stA, "6"), finding(stB)), "an error from the former comes with a finding from the latter"
			default:
				errText = "unknown relation " + p.rel
				return
			}
			o := u.oblige("equiv", "pairs", guard, goal, la.Site, fmt.Sprintf("%s and %s: %s whenever both run on the same content (hypothesis %s, mirror %s)", p.a, p.b, what, p.hyp, p.mirror))
			o.Name = name
			o.Func = "pairs"
			cv := u.oblige("cover", "pairs", "true", guard, lb.Site, "both members of the pair can run on one certificate")
			cv.Cover = true
			cv.Name = fmt.Sprintf("C20/pairs/cover#%s~%s", p.a, p.b)
			cv.Func = "pairs"
			out = append(out, o, cv)
			solve = append(solve, o, cv)
			r.Units = append(r.Units, u)
		}()
	}
	SolveAll(solve, r.QDir, r.Timeout, r.Tier == "thorough", 10)
	r.Extra["pairs_declared"] = declared
	r.Functions = append(r.Functions, fmt.Sprintf("%d declared pairs of lints (CheckApplies and Execute of both members, helpers and loops as structure-named summaries)", declared))
	r.Trusted = append(r.Trusted,
		"meta-lemma (spec/meta.lean): code with the same structure applied to equal live-in values yields equal results (congruence), lifted through loops",
		"lint code is deterministic and reads the certificate only (C05); under a mirror substitution, one member's reads of the mirrored fields and globals are redirected to their counterparts, which the pair's hypothesis (same names in SAN and IAN, issuer equal to subject) makes equal in content",
		"the pairs are the declared table (c20pairs in v3/lints/rfc/zz_verif_contracts.go), taken from the property's list; duplicated rules that are not declared are not compared")
	return out
}
