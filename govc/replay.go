package main

// Replay harness (DESIGN §2.10): a refuted obligation's model is turned into a Go test
// that is injected into the real package with `go test -overlay` (nothing is written
// under /repo) and checks the property's own statement on the real code. A failing test
// is a concrete violation; anything else is reported as no-failing-input-found.

import (
	"bytes"
	"context"
	"encoding/json"
	"fmt"
	"go/types"
	"os"
	"os/exec"
	"path/filepath"
	"sort"
	"strings"
	"time"
)

type Replayer struct {
	W     *World
	Verif string
}

type replayHandler func(rp *Replayer, o *Obligation) (pkgDir, testSrc string, ok bool)

var replayHandlers = map[string]replayHandler{}
var modelFreeReplay = map[string]bool{}

// Replay tries to turn a refuted obligation into a concrete failing run of the real code.
func (rp *Replayer) Replay(o *Obligation) (string, bool) {
	g := group(o.Name)
	var h replayHandler
	hpat := ""
	for pat, hh := range replayHandlers {
		if strings.HasPrefix(g, pat) && len(pat) > len(hpat) {
			h, hpat = hh, pat
		}
	}
	if h == nil {
		return "", false
	}
	// handlers that need the solver's model only run for refuted obligations; the others
	// (dictionary / corpus concretisation) also run for undecided regressions
	if (o.Status != "refuted" || o.Unit == nil) && !modelFreeReplay[hpat] {
		return "", false
	}
	pkgDir, src, ok := h(rp, o)
	if !ok {
		return writeReplayFile(rp.Verif, o, src, "model could not be concretised into inputs of the real function"), false
	}
	out, failed, err := rp.runOverlayTest(pkgDir, src)
	outcome := "replay test PASSED on the real code: the model does not reproduce (spurious or not concretisable)"
	if err != nil {
		outcome = "replay could not be run: " + err.Error()
	} else if failed {
		outcome = "replay test FAILED on the real code: concrete violation\n" + out
	}
	p := writeReplayFile(rp.Verif, o, src, outcome)
	return p, failed && err == nil
}

// runOverlayTest injects src as an in-package test file and runs it.
func (rp *Replayer) runOverlayTest(pkgDir, src string) (string, bool, error) {
	tmp, err := os.MkdirTemp("", "govc-replay-")
	if err != nil {
		return "", false, err
	}
	defer os.RemoveAll(tmp)
	testFile := filepath.Join(tmp, "zz_govc_replay_test.go")
	if err := os.WriteFile(testFile, []byte(src), 0o644); err != nil {
		return "", false, err
	}
	ov := map[string]any{"Replace": map[string]string{filepath.Join(pkgDir, "zz_govc_replay_test.go"): testFile}}
	b, _ := json.Marshal(ov)
	ovFile := filepath.Join(tmp, "overlay.json")
	os.WriteFile(ovFile, b, 0o644)
	ctx, cancel := context.WithTimeout(context.Background(), 120*time.Second)
	defer cancel()
	cmd := exec.CommandContext(ctx, "bash", "-c", fmt.Sprintf("ulimit -v 8000000; cd %q && go test -overlay %q -vet=off -count=1 -timeout 60s -run 'TestGovcReplay' .", pkgDir, ovFile))
	cmd.Env = append(os.Environ(), "GOFLAGS=-mod=mod", "GOPROXY=off", "GOSUMDB=off", "GOTOOLCHAIN=local")
	var out bytes.Buffer
	cmd.Stdout = &out
	cmd.Stderr = &out
	runErr := cmd.Run()
	txt := out.String()
	if len(txt) > 4000 {
		txt = txt[:4000]
	}
	if runErr == nil {
		return txt, false, nil
	}
	if strings.Contains(txt, "--- FAIL") || strings.Contains(txt, "panic:") {
		return txt, true, nil
	}
	return txt, false, fmt.Errorf("go test did not run: %s", clipText(txt))
}

// Eval asks the solver for the values of additional terms in the obligation's model.
func (o *Obligation) Eval(terms []string) map[string]string {
	res := map[string]string{}
	if len(terms) == 0 {
		return res
	}
	u := o.Unit
	var sb strings.Builder
	u.D.Print(&sb)
	for _, l := range u.script[:o.Pos] {
		sb.WriteString(l)
		sb.WriteByte('\n')
	}
	if o.Cover {
		sb.WriteString("(assert " + and(o.Guard, o.Goal) + ")\n")
	} else {
		sb.WriteString("(assert (not " + implies(o.Guard, o.Goal) + "))\n")
	}
	sb.WriteString("(check-sat)\n(get-value (" + strings.Join(terms, " ") + "))\n")
	tmp, _ := os.CreateTemp("", "govc-eval-*.smt2")
	tmp.WriteString(sb.String())
	tmp.Close()
	defer os.Remove(tmp.Name())
	order := []string{"z3-new", "z3"}
	if o.Solver == "z3" {
		order = []string{"z3", "z3-new"}
	}
	for _, s := range order {
		ctx, cancel := context.WithTimeout(context.Background(), 20*time.Second)
		outb, _ := exec.CommandContext(ctx, s, "-smt2", "-T:15", tmp.Name()).CombinedOutput()
		cancel()
		txt := string(outb)
		if !strings.HasPrefix(strings.TrimSpace(txt), "sat") {
			continue
		}
		rest := strings.TrimSpace(strings.TrimPrefix(strings.TrimSpace(txt), "sat"))
		sx, _ := parseSexp(rest)
		if sx == nil {
			continue
		}
		for i, pair := range sx.list {
			if len(pair.list) == 2 && i < len(terms) {
				res[terms[i]] = pair.list[1].String()
			}
		}
		return res
	}
	return res
}

// ---------- tiny s-expression reader ----------

type sexp struct {
	atom string
	list []*sexp
	isList bool
}

func (s *sexp) String() string {
	if !s.isList {
		return s.atom
	}
	var ps []string
	for _, x := range s.list {
		ps = append(ps, x.String())
	}
	return "(" + strings.Join(ps, " ") + ")"
}

func parseSexp(in string) (*sexp, string) {
	in = strings.TrimLeft(in, " \t\r\n")
	if in == "" {
		return nil, ""
	}
	if in[0] == '(' {
		s := &sexp{isList: true}
		rest := in[1:]
		for {
			rest = strings.TrimLeft(rest, " \t\r\n")
			if rest == "" {
				return s, ""
			}
			if rest[0] == ')' {
				return s, rest[1:]
			}
			var x *sexp
			x, rest = parseSexp(rest)
			if x == nil {
				return s, rest
			}
			s.list = append(s.list, x)
		}
	}
	if in[0] == '|' {
		j := strings.IndexByte(in[1:], '|')
		if j < 0 {
			return &sexp{atom: in}, ""
		}
		return &sexp{atom: in[:j+2]}, in[j+2:]
	}
	if in[0] == '"' {
		j := strings.IndexByte(in[1:], '"')
		if j < 0 {
			return &sexp{atom: in}, ""
		}
		return &sexp{atom: in[:j+2]}, in[j+2:]
	}
	j := strings.IndexAny(in, " \t\r\n()")
	if j < 0 {
		return &sexp{atom: in}, ""
	}
	return &sexp{atom: in[:j]}, in[j:]
}

// smtInt converts an SMT integer value (possibly "(- n)") to a decimal string.
func smtInt(v string) (string, bool) {
	v = strings.TrimSpace(v)
	if strings.HasPrefix(v, "(- ") && strings.HasSuffix(v, ")") {
		return "-" + strings.TrimSpace(v[3:len(v)-1]), true
	}
	if v == "" {
		return "", false
	}
	for _, c := range v {
		if c < '0' || c > '9' {
			return "", false
		}
	}
	return v, true
}

// concretiseStr finds a Go string for an abstract Str term: a literal it equals, or a
// literal that one of the given spec functions maps it to (e.g. trim(x) == "RFC6960").
func (o *Obligation) concretiseStr(term string, via ...string) (string, bool) {
	d := o.Unit.D
	var qs []string
	var lits []string
	for _, l := range d.strList {
		lits = append(lits, l)
	}
	sort.Strings(lits)
	for _, l := range lits {
		qs = append(qs, eq(term, d.strLits[l]))
	}
	qs = append(qs, eq(term, "gs.empty"))
	for _, f := range via {
		for _, l := range lits {
			qs = append(qs, eq(app(f, term), d.strLits[l]))
		}
	}
	vals := o.Eval(qs)
	for i, l := range lits {
		if vals[qs[i]] == "true" {
			return l, true
		}
	}
	if vals[qs[len(lits)]] == "true" {
		return "", true
	}
	k := len(lits) + 1
	for range via {
		for _, l := range lits {
			if vals[qs[k]] == "true" {
				return l, true
			}
			k++
		}
	}
	return "", false
}

// paramTerm returns the SMT constant of a parameter of the function under contract.
func (o *Obligation) paramTerm(name string) string {
	for _, t := range o.Unit.modelTerms {
		if strings.HasPrefix(strings.Trim(t, "|"), "param."+name+"!") {
			return t
		}
	}
	return ""
}

func (rp *Replayer) pkgDirOf(path string) string {
	rel := strings.TrimPrefix(path, rp.W.ModPath)
	return filepath.Join(rp.W.RepoDir, rel)
}

// constsOfType lists the constants of a named type (name, value expression).
func (rp *Replayer) constsOfType(pkgPath, typeName string) []string {
	p := rp.W.pkgByPath(pkgPath)
	if p == nil {
		return nil
	}
	tn, ok := p.Scope().Lookup(typeName).(*types.TypeName)
	if !ok {
		return nil
	}
	var out []string
	for _, n := range p.Scope().Names() {
		if c, ok := p.Scope().Lookup(n).(*types.Const); ok && types.Identical(c.Type(), tn.Type()) {
			out = append(out, n)
		}
	}
	return out
}
