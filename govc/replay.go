package main

// Replay harness (DESIGN §2.10). Generators are added per obligation kind.

type Replayer struct {
	W     *World
	Verif string
}

// Replay tries to turn a refuted obligation into a concrete failing run of the real code.
func (rp *Replayer) Replay(o *Obligation) (string, bool) {
	return "", false
}
