package main

// Schematic obligations: the lint-body interface contract, instantiated mechanically over
// every registered lint of the current tree (DESIGN §2.5). For each lint the real
// CheckApplies and Execute bodies are executed symbolically (helpers inlined, loops
// without invariants havoced, unknown callees abstracted); per return path the solver
// decides: C01 result non-nil with a status in 1..7, C06 status compatible with the
// name prefix, C02 (safety mode) no run-time panic on the path.

import (
	"fmt"
	"go/types"
	"strings"

	"golang.org/x/tools/go/ssa"
)

func init() {
	extraEngines["C06"] = append(extraEngines["C06"], func(w *World, r *Report) []*Obligation { return schematic(w, r, "C06") })
	extraEngines["C05"] = append(extraEngines["C05"], func(w *World, r *Report) []*Obligation { return schematic(w, r, "C05") })
	// C10 rests on the same write frames: concurrent lint calls on distinct objects share no written memory
	extraEngines["C10"] = append(extraEngines["C10"], func(w *World, r *Report) []*Obligation {
		obls := schematic(w, r, "C05")
		for _, o := range obls {
			o.Name = "C10/" + strings.TrimPrefix(o.Name, "C05/")
			o.Prop = "C10"
		}
		return obls
	})
	// C07 rests on Filter (C08 contracts), the result-set builders (C01 contracts) and on every lint
	// execution being a function of (lint, object, configuration) that leaves nothing behind: the
	// C05 obligations (write frame per lint, no ambient input, no iteration-order dependence, no
	// package-level state), re-run here under C07's name
	extraEngines["C07"] = append(extraEngines["C07"], func(w *World, r *Report) []*Obligation {
		var out []*Obligation
		engines := []func(w *World, r *Report) []*Obligation{
			func(w *World, r *Report) []*Obligation { return schematic(w, r, "C05") },
			censusAmbient, censusMapOrder, censusGlobalWrites,
		}
		for _, e := range engines {
			for _, o := range e(w, r) {
				o.Name = "C07/" + strings.TrimPrefix(o.Name, "C05/")
				o.Prop = "C07"
				out = append(out, o)
			}
		}
		return out
	})
	extraEngines["C02"] = append(extraEngines["C02"], func(w *World, r *Report) []*Obligation { return schematic(w, r, "C02") })
	extraEngines["C01"] = append(extraEngines["C01"], func(w *World, r *Report) []*Obligation { return schematic(w, r, "C01") })
	// C01 for revocation lists and OCSP responses: base.go has no recovery net on these two paths,
	// so "a result set is returned" needs the lint bodies themselves not to panic. The safety
	// obligations of the CRL / OCSP lints (the C02 sweep of exactly these lints) are therefore
	// obligations of C01 as well.
	extraEngines["C01"] = append(extraEngines["C01"], func(w *World, r *Report) []*Obligation {
		var all []*Obligation
		for _, li := range w.Lints() {
			if li.Kind == "cert" || li.Kind == "legacy" {
				continue
			}
			sr := w.sweepLint(li, "C02")
			if sr.err != "" {
				all = append(all, &Obligation{Name: "C01/lints/unsupported#" + li.Name, Prop: "C01", Kind: "unsupported", Status: "unknown", Note: "symbolic execution of the lint failed: " + clipText(sr.err), Src: li.Site})
				continue
			}
			sr.unit.Prop = "C01"
			r.Units = append(r.Units, sr.unit)
			for _, o := range sr.obls {
				o.Name = "C01/" + strings.TrimPrefix(o.Name, "C02/")
				o.Name = strings.Replace(o.Name, "/safety#", "/nopanic#", 1)
				o.Prop = "C01"
				all = append(all, o)
			}
		}
		var toSolve []*Obligation
		for _, o := range all {
			if o.Unit != nil {
				toSolve = append(toSolve, o)
			}
		}
		SolveAll(toSolve, r.QDir, r.Timeout, r.Tier == "thorough", 10)
		r.Trusted = append(r.Trusted, "the package invariants of util assumed at the entry of the CRL / OCSP lint bodies (reserved-network, prime and TLD tables well formed) are established and kept stable by obligations of the C02 check (pkginv:*), not re-proved under C01")
		return all
	})
}

type sweepResult struct {
	unit *Unit
	obls []*Obligation
	err  string
}

// sweepLint symbolically executes one lint and emits the obligations of `prop`.
func (w *World) sweepLint(li *LintInfo, prop string) (res sweepResult) {
	fname := "lint:" + li.Name
	u := NewUnit(w, fname, prop)
	u.sweep = true
	u.safety = prop == "C02"
	res.unit = u
	defer func() {
		if r := recover(); r != nil {
			res.err = fmt.Sprint(r)
		}
	}()
	if li.Execute == nil || li.Execute.Blocks == nil {
		res.err = "no Execute body"
		return
	}
	heap := u.newHeap(&Link{kind: "entry"})
	u.scalar("$top", "Int")
	top0 := u.hget(heap, "$top")
	u.top0 = top0
	ex := u.newFrame(li.Execute, nil, 0)
	ex.top = true
	ex.fname = fname
	var args []Val
	// The framework runs CheckApplies and Execute on the instance the registered constructor has
	// just returned (base.go: l.Lint()). For a lint that is not configurable the receiver is
	// therefore exactly the constructor's result: the constructor is executed symbolically first
	// (single return path, a boxed pointer). Configurable lints keep an unconstrained instance
	// (any field values the configuration may have written).
	recvTerm := ""
	if prop == "C02" && li.Ctor != nil && li.Ctor.Blocks != nil && li.Configure == nil && len(li.Ctor.Params) == 0 && len(li.Execute.Params) > 0 && inlinable(li.Ctor) {
		if _, isPtr := li.Execute.Params[0].Type().Underlying().(*types.Pointer); isPtr {
			cf := u.newFrame(li.Ctor, nil, 1)
			cf.fname = fname
			u.safety = false
			cf.run(heap, "true")
			u.safety = true
			if len(cf.retConds) == 1 && len(cf.retVals[0]) == 1 {
				rv := cf.retVals[0][0]
				if _, isIf := rv.Typ.Underlying().(*types.Interface); isIf {
					recvTerm = u.define("recv", "Int", "(if.val "+rv.T+")")
					heap = cf.retHeaps[0]
					u.note("receiver = result of the registered constructor (executed symbolically before CheckApplies)")
				}
			}
		}
	}
	if prop == "C02" {
		u.assumePkgInvs(heap, prop)
	}
	for pi, p := range li.Execute.Params {
		if pi == 0 && recvTerm != "" {
			v := Val{T: recvTerm, Typ: p.Type()}
			ex.vals[p] = v
			args = append(args, v)
			continue
		}
		x := u.fresh("param."+p.Name(), u.D.SortOf(p.Type()))
		v := Val{T: x, Typ: p.Type()}
		ex.vals[p] = v
		args = append(args, v)
		u.assumeRange(x, p.Type())
		u.wellFormedLoaded(heap, x, p.Type())
		if _, ok := p.Type().Underlying().(*types.Pointer); ok {
			// the framework never passes nil (receiver from the constructor, object checked by Lint*Ex)
			u.emit("(assert (not (= " + x + " 0)))")
		}
	}
	if prop == "C05" {
		// write frame of a lint call: memory allocated during the call, and the lint's own
		// (freshly constructed) instance; nothing reachable from the linted object, no globals
		fs := &frameSpec{top0: top0}
		if len(args) > 0 {
			if _, ok := args[0].Typ.Underlying().(*types.Pointer); ok {
				fs.locs = append(fs.locs, &Loc{Arr: "", Key: args[0].T, Typ: args[0].Typ})
			}
		}
		ex.frame = fs
	}
	st := &state{cur: "true", heap: heap}
	// A lint whose CheckApplies and Execute both carry their own nopanic contract (each verified
	// against its body as a unit of its own) is linked modularly: the framework's call sequence
	// is checked against the two contracts - requires of CheckApplies under the framework's
	// guarantees, then, on the paths where it answered true, its ensures must establish the
	// requires of Execute. Neither body is executed here.
	if prop == "C02" {
		cca, cex := w.funcContract(li.CheckApplies), w.funcContract(li.Execute)
		if cca != nil && cex != nil && cca.HasProp("C02") && cex.HasProp("C02") && cca.Flags["nopanic"] && cex.Flags["nopanic"] {
			cca.Used, cex.Used = true, true
			rs := ex.applyContractTop(li.CheckApplies, cca, args, st, li.Site, true)
			if len(rs) == 1 {
				st.cur = u.define("applies", "Bool", and(st.cur, rs[0].T))
				ex.applyContractTop(li.Execute, cex, args, st, li.Site, false)
				u.note("CheckApplies and Execute linked by their contracts (bodies verified as units of their own)")
				res.obls = append(res.obls, u.obls...)
				cnt := map[string]int{}
				for _, o := range res.obls {
					cnt[o.Kind]++
					o.Name = fmt.Sprintf("C02/lint:%s/safety#%s.%d", li.Name, o.Kind, cnt[o.Kind])
					o.Func = "lint:" + li.Name
				}
				return
			}
		}
	}
	// Execute runs only after CheckApplies returned true on the same instance and object
	if ca := li.CheckApplies; ca != nil && ca.Blocks != nil && len(ca.Params) == len(args) {
		g := u.newFrame(ca, nil, 1)
		g.fname = fname
		g.frame = ex.frame
		for i, p := range ca.Params {
			g.vals[p] = args[i]
		}
		saveSafety := u.safety
		g.run(st.heap, st.cur)
		u.safety = saveSafety
		if len(g.retConds) > 0 {
			var conds []string
			for i, c := range g.retConds {
				conds = append(conds, u.define(fmt.Sprintf("ca.ret%d", i), "Bool", and(c, g.retVals[i][0].T)))
			}
			st.cur = u.define("applies", "Bool", or(conds...))
			if len(g.retHeaps) == 1 {
				st.heap = g.retHeaps[0]
			} else {
				var cs []string
				for i, c := range g.retConds {
					cs = append(cs, u.define(fmt.Sprintf("ca.r%d", i), "Bool", c))
				}
				st.heap = u.newHeap(&Link{kind: "merge", preds: g.retHeaps, conds: cs})
			}
		}
	}
	// Execute alone under its own nopanic contract (its body is verified as a unit of its own, with
	// the loop invariants the sweep does not have): after the inlined CheckApplies only the
	// precondition of Execute is left to establish
	if prop == "C02" {
		if cex := w.funcContract(li.Execute); cex != nil && cex.HasProp("C02") && cex.Flags["nopanic"] {
			cex.Used = true
			ex.applyContractTop(li.Execute, cex, args, st, li.Site, false)
			u.note("Execute applied by its contract (body verified as a unit of its own); CheckApplies executed symbolically")
			res.obls = append(res.obls, u.obls...)
			cnt := map[string]int{}
			for _, o := range res.obls {
				cnt[o.Kind]++
				o.Name = fmt.Sprintf("C02/lint:%s/safety#%s.%d", li.Name, o.Kind, cnt[o.Kind])
				o.Func = "lint:" + li.Name
			}
			return
		}
	}
	ex.run(st.heap, st.cur)
	if len(ex.retConds) == 0 {
		res.err = "no normal return path"
		return
	}
	// per return path
	lrT := li.Execute.Signature.Results().At(0).Type()
	pt, ok := lrT.Underlying().(*types.Pointer)
	if !ok {
		res.err = "Execute does not return a pointer"
		return
	}
	var statusField int = -1
	if s, ok := pt.Elem().Underlying().(*types.Struct); ok {
		for i := 0; i < s.NumFields(); i++ {
			if s.Field(i).Name() == "Status" {
				statusField = i
			}
		}
	}
	if statusField < 0 {
		res.err = "result type has no Status field"
		return
	}
	arr, _ := u.fieldArr(pt.Elem(), statusField)
	for i, c := range ex.retConds {
		r := ex.retVals[i][0].T
		status := sel(u.hget(ex.retHeaps[i], arr), r)
		switch prop {
		case "C01":
			o := u.oblige("status", fname, c, and("(not (= "+r+" 0))", "(<= 1 "+status+")", "(<= "+status+" 7)"), li.Site, "Execute returns a non-nil result with a defined status (1..7)")
			res.obls = append(res.obls, o)
			o2 := u.oblige("fresh", fname, c, "(> "+r+" "+top0+")", li.Site, "Execute returns a result allocated during the call")
			res.obls = append(res.obls, o2)
		case "C06":
			var bad []string
			switch {
			case strings.HasPrefix(li.Name, "e_"):
				bad = []string{"5", "4"}
			case strings.HasPrefix(li.Name, "w_"):
				bad = []string{"6", "4"}
			case strings.HasPrefix(li.Name, "n_"):
				bad = []string{"5", "6"}
			}
			goal := "true"
			for _, b := range bad {
				goal = and(goal, "(not (= "+status+" "+b+"))")
			}
			o := u.oblige("severity", fname, c, goal, li.Site, "status returned by "+funcDisplayName(li.Execute)+" is compatible with the name prefix of "+li.Name)
			o.statusTerm = status
			res.obls = append(res.obls, o)
		}
	}
	if prop == "C02" {
		res.obls = append(res.obls, u.obls...)
	}
	if prop == "C05" {
		for _, o := range u.obls {
			if o.Kind == "frame" {
				res.obls = append(res.obls, o)
			}
		}
	}
	// one shared group per kind, ordinal = lint name: obligations of lints added later fall
	// into a claimed group (the properties quantify over present and future lints)
	cnt := map[string]int{}
	for _, o := range res.obls {
		cnt[o.Kind]++
		if prop == "C05" {
			o.Name = fmt.Sprintf("C05/lint:%s/frame#%d", li.Name, cnt[o.Kind])
			o.Func = "lint:" + li.Name
			continue
		}
		if prop == "C02" {
			// panic-freedom is claimed lint by lint (a lint is claimed when all its safety
			// obligations discharge on the unchanged tree)
			o.Name = fmt.Sprintf("C02/lint:%s/safety#%s.%d", li.Name, o.Kind, cnt[o.Kind])
			o.Func = "lint:" + li.Name
			continue
		}
		o.Name = fmt.Sprintf("%s/lints/%s#%s.%d", prop, o.Kind, li.Name, cnt[o.Kind])
		o.Func = "lints"
	}
	return
}

// applyContractTop applies a function contract at the top of a sweep (there is no call
// instruction): requires become obligations, a pure callee's result is its deterministic
// function, the heap is havoced outside what the assigns clause allows, ensures are assumed
// (only when `assume` is set: the last call of the sequence needs no postcondition).
func (f *Frame) applyContractTop(callee *ssa.Function, c *Contract, args []Val, st *state, src string, assume bool) []Val {
	u := f.u
	sig := callee.Signature
	env := u.W.calleeEnv(u, c, callee, sig, args)
	env.heap, env.oldHeap, env.frame = st.heap, st.heap, f
	u.ncalls++
	env.callID = fmt.Sprint(u.ncalls)
	f.bindLets(env, c)
	what := funcDisplayName(callee)
	for _, cl := range c.ClausesOf("requires") {
		t, err := env.evalBool(cl.Text)
		if err != nil {
			u.W.fail("%s:%d: requires of %s: %v", cl.File, cl.Line, c.Key, err)
			continue
		}
		u.oblige("pre@callsite", f.fname, st.cur, t, src, "requires of "+what+" when the framework calls it: "+cl.Text)
	}
	if !assume {
		return nil
	}
	pure := c.Flags["pure"]
	pre := st.heap
	st.heap = st.heap.clone()
	if !pure {
		onlyFresh := false
		for _, cl := range c.ClausesOf("assigns") {
			for _, item := range splitTop(cl.Text, ',') {
				if it := strings.TrimSpace(item); it == `\fresh` || it == `\nothing` {
					onlyFresh = true
				} else {
					onlyFresh = false
				}
			}
		}
		if onlyFresh {
			st.heap = u.newHeap(&Link{kind: "freshonly", parent: st.heap})
		} else {
			st.heap = u.newHeap(&Link{kind: "havoc", parent: st.heap, keep: append([]string{}, f.localRefs...)})
			u.bumpHV(st.heap, false)
		}
	}
	var rs []Val
	if pure && sig.Results().Len() == 1 {
		rs = []Val{u.W.pureApp(u, c, callee, sig, args, pre)}
	} else {
		for i := 0; i < sig.Results().Len(); i++ {
			t := sig.Results().At(i).Type()
			x := u.fresh("ret.top", u.D.SortOf(t))
			u.assumeRange(x, t)
			rs = append(rs, Val{T: x, Typ: t})
		}
	}
	env.heap, env.oldHeap = st.heap, pre
	env.setResults(sig, rs)
	for _, cl := range c.ClausesOf("ensures") {
		t, err := env.evalBool(cl.Text)
		if err != nil {
			u.W.fail("%s:%d: ensures of %s: %v", cl.File, cl.Line, c.Key, err)
			continue
		}
		u.assume(st.cur, t)
	}
	return rs
}

func schematic(w *World, r *Report, prop string) []*Obligation {
	var all []*Obligation
	nOK, nErr := 0, 0
	var unsupported []string
	skip := map[string]bool{}
	if r.Mode == "check" {
		for _, f := range loadLedger(w.VerifDir, r.Prop).Unclaimed {
			skip[f] = true
		}
	}
	var skipped []string
	for _, li := range w.Lints() {
		if r.Only != "" && !strings.Contains("lint:"+li.Name+"/", r.Only) {
			continue
		}
		if skip["lint:"+li.Name] {
			skipped = append(skipped, li.Name)
			continue
		}
		sr := w.sweepLint(li, prop)
		if sr.err != "" {
			nErr++
			unsupported = append(unsupported, li.Name+": "+clipText(sr.err))
			o := &Obligation{Name: fmt.Sprintf("%s/lints/unsupported#%s", prop, li.Name), Prop: prop, Kind: "unsupported", Status: "unknown", Note: "symbolic execution of the lint failed: " + clipText(sr.err), Src: li.Site}
			all = append(all, o)
			continue
		}
		nOK++
		r.Units = append(r.Units, sr.unit)
		all = append(all, sr.obls...)
	}
	var toSolve []*Obligation
	for _, o := range all {
		if o.Unit != nil {
			toSolve = append(toSolve, o)
		}
	}
	to := r.Timeout
	if (prop == "C02" || prop == "C05") && r.Tier != "thorough" && to > 4 {
		to = 4 * loadFactor // the sweep claims only what discharges quickly
	}
	SolveAll(toSolve, r.QDir, to, r.Tier == "thorough", 10)
	// name the offending status of refuted severity obligations (known findings are keyed by it)
	for _, o := range toSolve {
		if o.Status == "refuted" && o.statusTerm != "" {
			if v := o.Eval([]string{o.statusTerm}); v[o.statusTerm] != "" {
				o.Note += " [offending status=" + statusName(v[o.statusTerm]) + "]"
			}
		}
	}
	if len(skipped) > 0 {
		r.Extra["lints_not_claimed"] = skipped
		r.Extra["lints_not_claimed_note"] = "these lints had undischarged safety obligations on the unchanged tree when the ledger was written; they are unverified (not held), and are not re-swept by the check"
	}
	if prop == "C02" {
		all = append(all, pkgInvObligations(w, r, prop)...)
	}
	r.Extra["lints_swept"] = nOK
	r.Extra["lints_unsupported"] = unsupported
	r.Functions = append(r.Functions, fmt.Sprintf("%d registered lints (CheckApplies+Execute of each, helpers inlined)", nOK))
	return all
}

func statusName(v string) string {
	names := map[string]string{"0": "reserved", "1": "NA", "2": "NE", "3": "pass", "4": "info", "5": "warn", "6": "error", "7": "fatal"}
	if n, ok := names[v]; ok {
		return n
	}
	return v
}

var _ = ssa.NewProgram
