package main

// C19 table lemmas: the reserved-network table (the CIDR literals that util/ip.go's
// init() provably parses into reservedNetworks) together with the transcribed
// semantics of net.IP.IsGlobalUnicast / net.IPNet.Contains (Go 1.23 net/ip.go) gives
// closed bit-vector formulas for IsIANAReserved and IntersectsIANAReserved; the
// property's clauses are then decided over ALL addresses and ALL networks as QF_BV.
//
// The code-level contracts (util/zz_verif_contracts.go) prove that the two functions
// compute exactly these formulas over the abstract observers gu / netContains.

import (
	"fmt"
	"net"
	"sort"
	"strings"
)

func init() {
	extraEngines["C19"] = append(extraEngines["C19"], c19Lemmas)
}

type cidrEnt struct {
	lit  string
	v4   bool
	base string // hex digits (8 or 32)
	mask string
}

func hexOf(b []byte) string { return fmt.Sprintf("%x", b) }

func c19Table(w *World) ([]cidrEnt, error) {
	fn := w.findFunction(&Contract{Kind: "func", Key: "init@ip.go", Pkg: w.ModPath + "/util"})
	if fn == nil {
		return nil, fmt.Errorf("util init@ip.go not found")
	}
	seen := map[string]bool{}
	var out []cidrEnt
	for _, tr := range mapLitTriples(fn) {
		if seen[tr.lit] {
			continue
		}
		seen[tr.lit] = true
		_, n, err := net.ParseCIDR(tr.lit)
		if err != nil {
			return nil, fmt.Errorf("table literal %q does not parse: %v", tr.lit, err)
		}
		e := cidrEnt{lit: tr.lit, v4: len(n.IP) == 4, base: hexOf(n.IP), mask: hexOf(n.Mask)}
		out = append(out, e)
	}
	sort.Slice(out, func(i, j int) bool { return out[i].lit < out[j].lit })
	return out, nil
}

// SMT prelude: an address is (is4, v4:BV32, v6:BV128); To4-normalisation as in net.IP.To4.
func c19Prelude(tab []cidrEnt) []string {
	var ls []string
	add := func(s string) { ls = append(ls, s) }
	// mapped(v6): ::ffff:a.b.c.d
	add("(define-fun mapped ((x (_ BitVec 128))) Bool (= ((_ extract 127 32) x) #x00000000000000000000ffff))")
	add("(define-fun low32 ((x (_ BitVec 128))) (_ BitVec 32) ((_ extract 31 0) x))")
	// normalised view: n4 = has a 4-byte form, nv4 = its value
	add("(define-fun n4 ((is4 Bool) (v4 (_ BitVec 32)) (v6 (_ BitVec 128))) Bool (or is4 (mapped v6)))")
	add("(define-fun nv4 ((is4 Bool) (v4 (_ BitVec 32)) (v6 (_ BitVec 128))) (_ BitVec 32) (ite is4 v4 (low32 v6)))")
	// IsGlobalUnicast (len 4 or 16 assumed): not bcast, not unspecified, not loopback, not multicast, not link-local unicast
	add(`(define-fun gu ((is4 Bool) (v4 (_ BitVec 32)) (v6 (_ BitVec 128))) Bool
  (let ((f (n4 is4 v4 v6)) (a (nv4 is4 v4 v6)))
   (and (not (and f (= a #xffffffff)))
        (not (or (and f (= a #x00000000)) (and (not is4) (= v6 #x00000000000000000000000000000000))))
        (not (ite f (= ((_ extract 31 24) a) #x7f) (= v6 #x00000000000000000000000000000001)))
        (not (ite f (= ((_ extract 31 28) a) #xe) (= ((_ extract 127 120) v6) #xff)))
        (not (ite f (= ((_ extract 31 16) a) #xa9fe) (and (= ((_ extract 127 120) v6) #xfe) (= ((_ extract 119 118) v6) #b10)))))))`)
	// Contains for a 4-byte network / a 16-byte network with arbitrary masks
	add("(define-fun c4 ((nb (_ BitVec 32)) (nm (_ BitVec 32)) (is4 Bool) (v4 (_ BitVec 32)) (v6 (_ BitVec 128))) Bool (and (n4 is4 v4 v6) (= (bvand nb nm) (bvand (nv4 is4 v4 v6) nm))))")
	add("(define-fun c6 ((nb (_ BitVec 128)) (nm (_ BitVec 128)) (is4 Bool) (v4 (_ BitVec 32)) (v6 (_ BitVec 128))) Bool (and (not (n4 is4 v4 v6)) (= (bvand nb nm) (bvand v6 nm))))")
	// the table
	var inTab []string
	for _, e := range tab {
		if e.v4 {
			inTab = append(inTab, fmt.Sprintf("(c4 #x%s #x%s is4 v4 v6)", e.base, e.mask))
		} else {
			inTab = append(inTab, fmt.Sprintf("(c6 #x%s #x%s is4 v4 v6)", e.base, e.mask))
		}
	}
	add("(define-fun inTable ((is4 Bool) (v4 (_ BitVec 32)) (v6 (_ BitVec 128))) Bool (or " + strings.Join(inTab, " ") + "))")
	// IsIANAReserved as proved for the code: !gu || exists table entry containing it
	add("(define-fun reserved ((is4 Bool) (v4 (_ BitVec 32)) (v6 (_ BitVec 128))) Bool (or (not (gu is4 v4 v6)) (inTable is4 v4 v6)))")
	// IntersectsIANAReserved for a network (n4?, base, mask): !gu(base) || exists r: r.Contains(base) || net.Contains(r.IP)
	var inter4, inter6 []string
	for _, e := range tab {
		if e.v4 {
			inter4 = append(inter4, fmt.Sprintf("(= (bvand nb nm) (bvand #x%s nm))", e.base))
		} else {
			// a 4-byte network contains a 16-byte address only via To4: table bases are never mapped
			inter6 = append(inter6, fmt.Sprintf("(= (bvand nb6 nm6) (bvand #x%s nm6))", e.base))
		}
	}
	add("(define-fun inter4 ((nb (_ BitVec 32)) (nm (_ BitVec 32))) Bool (or (not (gu true nb #x00000000000000000000000000000000)) (inTable true nb #x00000000000000000000000000000000) " + strings.Join(inter4, " ") + "))")
	// 16-byte network: base may be a mapped address (then Contains() normalises the argument but not the receiver)
	var inter6m []string
	for _, e := range tab {
		if !e.v4 {
			inter6m = append(inter6m, fmt.Sprintf("(= (bvand nb6 nm6) (bvand #x%s nm6))", e.base))
		}
	}
	add("(define-fun inter6 ((nb6 (_ BitVec 128)) (nm6 (_ BitVec 128))) Bool (or (not (gu false #x00000000 nb6)) (inTable false #x00000000 nb6) " + strings.Join(inter6m, " ") + "))")
	// prefix masks
	add("(define-fun pm32 ((l (_ BitVec 32))) (_ BitVec 32) (ite (= l #x00000000) #x00000000 (bvshl #xffffffff (bvsub #x00000020 l))))")
	add("(define-fun pm128 ((l (_ BitVec 128))) (_ BitVec 128) (ite (= l #x00000000000000000000000000000000) #x00000000000000000000000000000000 (bvshl #xffffffffffffffffffffffffffffffff (bvsub #x00000000000000000000000000000080 l))))")
	_ = inter6
	return ls
}

type c19Block struct {
	name string
	cidr string
}

// the special-purpose blocks named by the property statement
var c19Blocks = []c19Block{
	{"rfc1918-10", "10.0.0.0/8"}, {"rfc1918-172", "172.16.0.0/12"}, {"rfc1918-192", "192.168.0.0/16"},
	{"loopback", "127.0.0.0/8"}, {"link-local", "169.254.0.0/16"}, {"shared", "100.64.0.0/10"},
	{"doc-1", "192.0.2.0/24"}, {"doc-2", "198.51.100.0/24"}, {"doc-3", "203.0.113.0/24"},
	{"benchmarking", "198.18.0.0/15"}, {"multicast", "224.0.0.0/4"}, {"class-e-broadcast", "240.0.0.0/4"},
	{"unspecified", "0.0.0.0/32"},
	{"v6-loopback", "::1/128"}, {"v6-unique-local", "fc00::/7"}, {"v6-link-local", "fe80::/10"},
	{"v6-multicast", "ff00::/8"}, {"v6-documentation", "2001:db8::/32"}, {"v6-6to4", "2002::/16"}, {"v6-discard", "100::/64"},
}

var c19Public = []string{"8.8.8.8", "1.1.1.1", "9.9.9.9", "2001:4860:4860::8888", "2606:4700:4700::1111"}

func c19Lemmas(w *World, r *Report) []*Obligation {
	tab, err := c19Table(w)
	if err != nil {
		w.fail("C19: %v", err)
		return nil
	}
	r.Extra["table_entries"] = len(tab)
	r.Trusted = append(r.Trusted,
		"net.ParseCIDR evaluated by the generator (Go's own library) on the table literals",
		"net.IP.To4 / IsGlobalUnicast / IPNet.Contains transcribed from Go 1.23 net/ip.go into the QF_BV prelude (govc/c19.go)",
		"link between init()'s proved postconditions (every map literal parsed and appended; every table entry is a map literal) and the literal list used here: two quantifier instantiations at the witness triples, argued in DESIGN.md, backed by the bounded runtime table check")
	pre := c19Prelude(tab)
	u := NewUnit(w, "util.reservedNetworks", "C19")
	for _, l := range pre {
		u.emit(l)
	}
	decl := func(names ...string) {
		for _, n := range names {
			switch {
			case strings.HasPrefix(n, "b"):
				u.emit("(declare-const " + n + " Bool)")
			case strings.HasSuffix(n, "6"):
				u.emit("(declare-const " + n + " (_ BitVec 128))")
			default:
				u.emit("(declare-const " + n + " (_ BitVec 32))")
			}
		}
	}
	decl("bis4", "a4", "a6", "n4b", "n4l", "m4b", "m4l", "n6b6", "n6l6", "m6b6", "m6l6", "n4m", "n6m6")
	u.modelTerms = []string{"bis4", "a4", "a6", "n4b", "n4l", "m4b", "m4l", "n6b6", "n6l6", "m6b6", "m6l6", "n4m", "n6m6"}
	var obls []*Obligation
	lemma := func(kind, name, goal, note string) {
		o := u.oblige(kind, "util."+name, "true", goal, "v3/util/ip.go", note)
		obls = append(obls, o)
	}
	// R2: every address of every named block is reserved
	for _, b := range c19Blocks {
		_, n, _ := net.ParseCIDR(b.cidr)
		if len(n.IP) == 4 {
			lemma("block", "IsIANAReserved", fmt.Sprintf("(=> (and bis4 (= (bvand a4 #x%s) #x%s)) (reserved bis4 a4 a6))", hexOf(n.Mask), hexOf(n.IP)), "every address in "+b.cidr+" ("+b.name+") is reserved")
			// and in IPv4-mapped form
			lemma("block", "IsIANAReserved", fmt.Sprintf("(=> (and (not bis4) (mapped a6) (= (bvand (low32 a6) #x%s) #x%s)) (reserved bis4 a4 a6))", hexOf(n.Mask), hexOf(n.IP)), "every address in "+b.cidr+" ("+b.name+") in IPv4-mapped form is reserved")
		} else {
			lemma("block", "IsIANAReserved", fmt.Sprintf("(=> (and (not bis4) (= (bvand a6 #x%s) #x%s)) (reserved bis4 a4 a6))", hexOf(n.Mask), hexOf(n.IP)), "every address in "+b.cidr+" ("+b.name+") is reserved")
		}
	}
	// R3: well-known public addresses are not reserved
	for _, p := range c19Public {
		ip := net.ParseIP(p)
		if v4 := ip.To4(); v4 != nil {
			lemma("public", "IsIANAReserved", fmt.Sprintf("(not (reserved true #x%s #x00000000000000000000000000000000))", hexOf(v4)), p+" is not reserved")
			lemma("public", "IsIANAReserved", fmt.Sprintf("(not (reserved false #x00000000 #x00000000000000000000ffff%s))", hexOf(v4)), p+" (mapped) is not reserved")
		} else {
			lemma("public", "IsIANAReserved", fmt.Sprintf("(not (reserved false #x00000000 #x%s))", hexOf(ip.To16())), p+" is not reserved")
		}
	}
	// R4: 4-byte and IPv4-mapped forms agree
	lemma("mapped", "IsIANAReserved", "(=> (and (mapped a6) (= (low32 a6) a4)) (= (reserved true a4 a6) (reserved false a4 a6)))", "4-byte and IPv4-mapped form are classified identically")
	// networks: prefix networks of both families (base need not be masked)
	// CIDR networks: a prefix length and a base address with no bits set beyond the prefix
	// (the property quantifies over CIDR networks; non-canonical bases are not claimed)
	// IPv4-mapped IPv6 networks kept in 16-byte form contain no address at all under
	// net.IPNet.Contains (it normalises the address but not the network); not claimed
	v4net := "(and (bvule n4l #x00000020) (= n4m (pm32 n4l)) (= (bvand n4b n4m) n4b))"
	v6net := "(and (bvule n6l6 #x00000000000000000000000000000080) (= n6m6 (pm128 n6l6)) (= (bvand n6b6 n6m6) n6b6) (not (and (mapped n6b6) (bvuge n6l6 #x00000000000000000000000000000060))))"
	// I2: a network containing a reserved address intersects
	lemma("contains", "IntersectsIANAReserved", "(=> (and "+v4net+" (c4 n4b n4m bis4 a4 a6) (reserved bis4 a4 a6)) (inter4 n4b n4m))", "an IPv4 network that contains a reserved address intersects reserved space")
	lemma("contains", "IntersectsIANAReserved", "(=> (and "+v6net+" (c6 n6b6 n6m6 bis4 a4 a6) (reserved bis4 a4 a6)) (inter6 n6b6 n6m6))", "an IPv6 network that contains a reserved address intersects reserved space")
	// I3: monotone in the network
	lemma("monotone", "IntersectsIANAReserved", "(=> (and "+v4net+" (bvule m4l n4l) (= m4b (bvand n4b (pm32 m4l))) (inter4 n4b n4m)) (inter4 m4b (pm32 m4l)))", "any IPv4 network containing an intersecting network intersects")
	lemma("monotone", "IntersectsIANAReserved", "(=> (and "+v6net+" (bvule m6l6 n6l6) (= m6b6 (bvand n6b6 (pm128 m6l6))) (inter6 n6b6 n6m6)) (inter6 m6b6 (pm128 m6l6)))", "any IPv6 network containing an intersecting network intersects")
	// I4: single-address networks
	lemma("single", "IntersectsIANAReserved", "(= (inter4 a4 #xffffffff) (reserved true a4 a6))", "a /32 network intersects iff its address is reserved")
	lemma("single", "IntersectsIANAReserved", "(=> (not (mapped a6)) (= (inter6 a6 #xffffffffffffffffffffffffffffffff) (reserved false a4 a6)))", "a /128 network intersects iff its address is reserved")
	SolveAll(obls, r.QDir, r.Timeout, r.Tier == "thorough", 8)
	r.Units = append(r.Units, u)
	obls = append(obls, c19RuntimeTable(w, tab))
	return obls
}


// c19RuntimeTable: bounded stand-in for the last link of the init() argument. init() has
// no inputs, so one execution (package initialisation in a test binary) exhibits its only
// behaviour up to map iteration order; the test compares the initialised table, as a set,
// with the parsed literals the lemmas above are built from.
func c19RuntimeTable(w *World, tab []cidrEnt) *Obligation {
	var lits []string
	for _, e := range tab {
		lits = append(lits, e.lit)
	}
	src := fmt.Sprintf(`package util

import (
	"net"
	"testing"
)

// generated by govc: the reserved-network table built by init() equals, as a set, the
// CIDR literals of init() (extracted from its SSA).
func TestGovcReplay(t *testing.T) {
	want := map[string]bool{}
	for _, l := range []string{%s} {
		_, n, err := net.ParseCIDR(l)
		if err != nil {
			t.Fatalf("literal %%q does not parse: %%v", l, err)
		}
		want[n.String()] = true
	}
	got := map[string]bool{}
	for _, n := range reservedNetworks {
		if n == nil {
			t.Fatalf("nil entry in reservedNetworks")
		}
		got[n.String()] = true
	}
	for k := range want {
		if !got[k] {
			t.Fatalf("literal network %%s is missing from the initialised table", k)
		}
	}
	for k := range got {
		if !want[k] {
			t.Fatalf("table entry %%s does not come from a literal", k)
		}
	}
}
`, quoteList(lits))
	o := &Obligation{Name: "C19/util.init@ip.go/table-runtime#1", Prop: "C19", Kind: "bounded", Src: "v3/util/ip.go", Solver: "exec",
		Note:    "initialised reservedNetworks == parse(literals) as sets",
		Bounded: "concrete execution of the input-free initialiser (exhaustive up to map iteration order)"}
	rp := &Replayer{W: w, Verif: w.VerifDir}
	out, failed, err := rp.runOverlayTest(rp.pkgDirOf(w.ModPath+"/util"), src)
	o.Model = src
	o.Output = out
	switch {
	case err != nil:
		o.Status = "unknown"
		o.Output = err.Error()
	case failed:
		o.Status = "refuted"
	default:
		o.Status = "proved"
	}
	return o
}
