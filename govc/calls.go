package main

// Calls: builtins, contracts (modular), inlining, externals, defers/recover; loops.

import (
	"sort"
	"os"
	"fmt"
	"go/constant"
	"go/token"
	"go/types"
	"strings"

	"golang.org/x/tools/go/ssa"
)

const maxInlineDepth = 4

func (f *Frame) call(v ssa.Value, c *ssa.CallCommon, st *state) {
	u := f.u
	var args []Val
	// builtins
	if b, ok := c.Value.(*ssa.Builtin); ok {
		f.builtin(v, b, c, st)
		return
	}
	var callee *ssa.Function
	var contract *Contract
	var recv Val
	what := ""
	if c.IsInvoke() {
		recv = f.val(c.Value)
		args = append(args, recv)
		for _, a := range c.Args {
			args = append(args, f.val(a))
		}
		f.check(st, "nilderef", "(not (= (if.typ "+recv.T+") 0))", v.(ssa.Instruction), "method call on nil interface")
		contract = u.W.interfaceContract(c.Value.Type(), c.Method)
		what = "interface " + shortType(c.Value.Type()) + "." + c.Method.Name()
		f.applyCall(v, c, nil, contract, what, args, st)
		return
	}
	for _, a := range c.Args {
		args = append(args, f.val(a))
	}
	switch cv := c.Value.(type) {
	case *ssa.Function:
		callee = cv
	case *ssa.MakeClosure:
		callee = cv.Fn.(*ssa.Function)
	default:
		fv := f.val(c.Value)
		if alts, ok := f.cloAlts[c.Value]; ok {
			f.dispatchClosures(v, c, alts, args, st, fv)
			return
		}
		if fv.Clo != nil {
			callee = fv.Clo.Fn.(*ssa.Function)
		} else if fv.Fn != nil {
			callee = fv.Fn
		} else if fv.FieldSrc != nil {
			contract = u.W.fieldContract(fv.FieldSrc)
			what = "field " + fv.FieldSrc.Name()
		}
		if callee == nil {
			f.check(st, "nilcall", "(not (= "+fv.T+" 0))", v.(ssa.Instruction), "call of nil function value")
			if contract == nil {
				if what == "" {
					what = "dynamic call " + c.Value.Name()
				}
			}
			f.curFn = fv
			f.applyCall(v, c, nil, contract, what, args, st)
			f.curFn = Val{}
			return
		}
	}
	contract = u.W.funcContract(callee)
	what = funcDisplayName(callee)
	f.atCallAsserts(v.(ssa.Instruction), what, st, args)
	f.applyCall(v, c, callee, contract, what, args, st)
}

// applyCall handles a call by contract, inlining, or abstraction.
func (f *Frame) applyCall(v ssa.Value, c *ssa.CallCommon, callee *ssa.Function, contract *Contract, what string, args []Val, st *state) {
	u := f.u
	in := v.(ssa.Instruction)
	sig := c.Signature()
	// trace (ghost call records)
	tr := u.W.traceFor(u, callee, c, contract)

	if contract != nil {
		contract.Used = true
		f.callByContract(v, in, sig, callee, contract, what, args, st, tr)
		return
	}
	if callee != nil && callee.Blocks != nil && u.W.inModule(callee) {
		if u.sweep && u.Prop != "C02" && u.Prop != "C05" && !returnsVerdict(callee) {
			// severity/status sweeps only need the helpers that produce verdicts; everything
			// else is abstracted (result unconstrained, no effect on the lint's own result)
			u.note("helpers that do not return a verdict are abstracted in the severity/status sweep as deterministic uninterpreted functions of their arguments (read-only, deterministic lint code: C05 frames)")
			f.abstractCall(v, callee, sig, st, args)
			return
		}
		if f.depth < maxInlineDepth && (inlinable(callee) || (u.sweep && inlinableSweep(callee))) {
			f.inline(v, callee, args, st, tr)
			return
		}
		// unknown module function: havoc
		u.inexact = true
		u.note("call to " + what + " without contract: result and heap havoced")
		f.havocCall(v, sig, st, true, tr, args)
		if u.safety {
			// nothing is known about the body: it may panic (panic-freedom of the caller is not claimed)
			f.mayPanic(st, in, what+" (module function neither under contract nor inlined)")
		}
		return
	}
	if callee != nil && callee.Blocks == nil || callee == nil {
		// external or dynamic
		ext := u.W.externContract(callee)
		if ext != nil {
			ext.Used = true
			f.callByContract(v, in, sig, callee, ext, what, args, st, u.W.traceFor(u, callee, c, ext))
			return
		}
		if callee != nil {
			u.trusted["external "+what+": assumed not to panic and not to modify modelled memory other than local variables whose address it is given; result unconstrained"] = true
			// an external that is handed the address of a local variable (asn1.Unmarshal(b, &v),
			// s.ReadASN1(&out, tag), a pointer-receiver method on a local) may write it: the
			// variable's contents are unknown afterwards (the sweeps' abstraction below makes them a
			// deterministic function of the other arguments instead)
			if pp := externPanicPre(callee, args, u); pp != "" {
				f.check(st, "extpanic", pp, in, "precondition of "+what)
			}
			if u.sweep && tr == nil {
				// schematic mode: externals are deterministic functions of their arguments
				f.pendingCall = c
				f.abstractCall(v, callee, sig, st, args)
				f.pendingCall = nil
				return
			}
			f.havocLocalPointees(c, st)
			f.havocCall(v, sig, st, false, tr, args)
		} else {
			u.inexact = true
			u.note("dynamic call (" + what + "): result and heap havoced")
			f.havocCall(v, sig, st, true, tr, args)
			// an unknown callee may panic
			f.mayPanic(st, in, what)
		}
		return
	}
	f.havocCall(v, sig, st, true, tr, args)
}

// havocLocalPointees: every operand of the call that is the address of a local variable of this
// function (directly, converted, or boxed in an interface) gets unknown contents.
func (f *Frame) havocLocalPointees(c *ssa.CallCommon, st *state) {
	u := f.u
	ops := append([]ssa.Value{}, c.Args...)
	if c.IsInvoke() {
		ops = append(ops, c.Value)
	}
	seen := map[*ssa.Alloc]bool{}
	for _, a := range ops {
	unwrap:
		for i := 0; i < 4; i++ {
			switch x := a.(type) {
			case *ssa.MakeInterface:
				a = x.X
			case *ssa.ChangeType:
				a = x.X
			case *ssa.Convert:
				a = x.X
			default:
				break unwrap
			}
		}
		al, ok := a.(*ssa.Alloc)
		if !ok || seen[al] {
			continue
		}
		r, mine := f.allocRefs[al]
		if !mine {
			continue
		}
		seen[al] = true
		el := al.Type().Underlying().(*types.Pointer).Elem()
		if s, ok := el.Underlying().(*types.Struct); ok {
			for i := 0; i < s.NumFields(); i++ {
				arr, _ := u.fieldArr(el, i)
				fv := u.fresh("extw."+al.Name(), u.D.SortOf(s.Field(i).Type()))
				u.assumeRange(fv, s.Field(i).Type())
				u.hset(st.heap, arr, sto(u.hget(st.heap, arr), r, fv))
				u.wellFormedLoaded(st.heap, fv, s.Field(i).Type())
			}
		} else {
			arr, _ := u.cellArr(el)
			fv := u.fresh("extw."+al.Name(), u.D.SortOf(el))
			u.assumeRange(fv, el)
			u.hset(st.heap, arr, sto(u.hget(st.heap, arr), r, fv))
			u.wellFormedLoaded(st.heap, fv, el)
		}
		u.bumpHV(st.heap, false)
	}
}

func inlinable(fn *ssa.Function) bool {
	if fn.Blocks == nil || len(fn.Blocks) > 40 {
		return false
	}
	for _, b := range fn.Blocks {
		for _, s := range b.Succs {
			if s.Dominates(b) {
				return false // loop
			}
		}
		for _, in := range b.Instrs {
			switch in.(type) {
			case *ssa.Defer, *ssa.Go, *ssa.Select:
				return false
			}
		}
	}
	return fn.Recover == nil
}

// mayPanic models a callee that may panic: the normal path continues with a fresh
// "did not panic" condition.
func (f *Frame) mayPanic(st *state, in ssa.Instruction, what string) {
	u := f.u
	p := u.fresh("panics", "Bool")
	if u.safety && !f.recovers() {
		u.oblige("callpanic", f.fname, st.cur, "false", posStr(u.W.Fset, in.Pos()), "callee "+what+" may panic")
	}
	f.panConds = append(f.panConds, and(st.cur, p))
	f.panHeaps = append(f.panHeaps, st.heap.clone())
	st.cur = u.define("ok", "Bool", and(st.cur, not(p)))
}

func (f *Frame) resultVals(v ssa.Value, sig *types.Signature, prefix string) []Val {
	u := f.u
	var rs []Val
	for i := 0; i < sig.Results().Len(); i++ {
		t := sig.Results().At(i).Type()
		x := u.fresh(prefix, u.D.SortOf(t))
		u.assumeRange(x, t)
		if _, ok := t.Underlying().(*types.Interface); ok {
			u.emit(fmt.Sprintf("(assert (and (>= (if.typ %s) 0) (=> (= (if.typ %s) 0) (= (if.val %s) 0))))", x, x, x))
		}
		rs = append(rs, Val{T: x, Typ: t})
	}
	return rs
}

func (f *Frame) bindResults(v ssa.Value, rs []Val) {
	if v == nil {
		return
	}
	switch len(rs) {
	case 0:
		f.vals[v] = Val{Typ: v.Type()}
	case 1:
		f.vals[v] = rs[0]
	default:
		f.vals[v] = Val{Typ: v.Type(), Tup: rs}
	}
}

func (f *Frame) havocCall(v ssa.Value, sig *types.Signature, st *state, heapToo bool, tr *traceInfo, args []Val) {
	u := f.u
	rs := f.resultVals(v, sig, "ret."+v.Name())
	if heapToo {
		if in, ok := v.(ssa.Instruction); ok {
			f.frameCheckAll(st, in, "unknown callee")
		}
		st.heap = u.newHeap(&Link{kind: "havoc", parent: st.heap, keep: append([]string{}, f.localRefs...)})
		u.bumpHV(st.heap, false)
	}
	for _, r := range rs {
		u.wellFormedLoaded(st.heap, r.T, r.Typ)
	}
	f.bindResults(v, rs)
	f.recordTrace(tr, st, args, rs)
}

// callByContract: assert requires, havoc assigns, assume ensures.
func (f *Frame) callByContract(v ssa.Value, in ssa.Instruction, sig *types.Signature, callee *ssa.Function, c *Contract, what string, args []Val, st *state, tr *traceInfo) {
	u := f.u
	env := u.W.calleeEnv(u, c, callee, sig, args)
	env.heap = st.heap
	env.oldHeap = st.heap
	env.frame = f
	u.ncalls++
	env.callID = fmt.Sprint(u.ncalls)
	if c.Kind == "field" && f.curFn.T != "" {
		// the function value being called (a contract on a function-typed field may speak about it)
		env.vars["fnval"] = f.curFn
	}
	// let bindings
	f.bindLets(env, c)
	// package invariants hold in every state after initialisation (nothing writes the variables
	// they mention: the `stable` census), so they may be recalled wherever a precondition needs
	// them - after a loop or a call has havoced the heap, not only at the entry of the lint
	if u.sweep && u.safety && len(c.ClausesOf("requires")) > 0 {
		if u.pkgInvAt == nil {
			u.pkgInvAt = map[*Heap]bool{}
		}
		if !u.pkgInvAt[st.heap] {
			u.pkgInvAt[st.heap] = true
			u.assumePkgInvs(st.heap, u.Prop)
		}
	}
	// preconditions
	for _, cl := range c.ClausesOf("requires") {
		t, err := env.evalBool(cl.Text)
		if err != nil {
			if u.sweep {
				// a callee contract that no longer fits the source (stale after a refactoring): in a
				// sweep the precondition becomes an obligation that cannot be discharged - it matters
				// only to the property whose sweep keeps call-site preconditions (C02)
				u.softFail("%s:%d: requires of %s: %v", cl.File, cl.Line, c.Key, err)
				o := u.oblige("pre@callsite", f.fname, st.cur, "false", posStr(u.W.Fset, in.Pos()), "requires of "+what+" cannot be evaluated against the current source (stale contract): "+err.Error())
				o.SpecErr = err.Error()
				continue
			}
			u.W.fail("%s:%d: requires of %s: %v", cl.File, cl.Line, c.Key, err)
			continue
		}
		if os.Getenv("GOVC_SPLIT") != "" {
			flat := []string{t}
			for changed := true; changed; {
				changed = false
				var nf []string
				for _, p := range flat {
					if ps := topConjuncts(p); len(ps) > 1 {
						nf = append(nf, ps...)
						changed = true
					} else {
						nf = append(nf, p)
					}
				}
				flat = nf
			}
			for _, p := range flat {
				u.oblige("pre@callsite", f.fname, st.cur, p, posStr(u.W.Fset, in.Pos()), "requires of "+what+": "+clip(p, 300))
			}
			continue
		}
		o := u.oblige("pre@callsite", f.fname, st.cur, t, posStr(u.W.Fset, in.Pos()), "requires of "+what+": "+cl.Text)
		_ = o
	}
	pure := c.Flags["pure"]
	pre := st.heap
	st.heap = st.heap.clone()
	// frame
	assigns := c.ClausesOf("assigns")
	switch {
	case pure:
	case len(assigns) == 0 && c.Kind == "extern":
		// externals without an assigns clause do not touch modelled memory
	case len(assigns) == 0:
		f.frameCheckAll(st, in, what)
		st.heap = u.newHeap(&Link{kind: "havoc", parent: st.heap, keep: append([]string{}, f.localRefs...)})
		u.bumpHV(st.heap, false)
	default:
		for _, cl := range assigns {
			for _, item := range splitTop(cl.Text, ',') {
				item = strings.TrimSpace(item)
				switch {
				case item == `\nothing` || item == "nothing":
				case item == `\fresh` || item == "fresh":
					st.heap = u.newHeap(&Link{kind: "freshonly", parent: st.heap})
				case item == `\all`:
					f.frameCheckAll(st, in, what)
					st.heap = u.newHeap(&Link{kind: "havoc", parent: st.heap, keep: append([]string{}, f.localRefs...)})
					u.bumpHV(st.heap, false)
				case strings.HasPrefix(item, `\elems(`):
					// the callee may overwrite the elements of a slice argument
					env.heap = pre
					av, err := env.eval(strings.TrimSuffix(strings.TrimPrefix(item, `\elems(`), ")"))
					if err != nil {
						u.W.fail("%s:%d: assigns of %s: %v", cl.File, cl.Line, c.Key, err)
						continue
					}
					sl, ok := av.Typ.Underlying().(*types.Slice)
					if !ok {
						u.W.fail("%s:%d: \\elems of non-slice", cl.File, cl.Line)
						continue
					}
					earr, _ := u.elemArr(sl.Elem())
					base := "(sl.base " + av.T + ")"
					// an empty slice has no elements to overwrite
					f.frameExtra = "(= (sl.len " + av.T + ") 0)"
					f.frameCheckRef(st, in, earr, base, "callee "+what+" overwrites the elements of its argument")
					f.frameExtra = ""
					ea := u.hget(st.heap, earr)
					nd := u.fresh("elems", "(Array Int "+u.D.SortOf(sl.Elem())+")")
					// only the slice's own window changes
					u.emit(fmt.Sprintf("(assert (forall ((i Int)) (! (=> (or (< i (sl.off %s)) (>= i (+ (sl.off %s) (sl.len %s)))) (= (select %s i) (select (select %s %s) i))) :pattern ((select %s i)))))", av.T, av.T, av.T, nd, ea, base, nd))
					u.hset(st.heap, earr, sto(ea, base, nd))
					u.bumpHV(st.heap, false)
				case strings.HasPrefix(item, `\mapof(`):
					env.heap = pre
					av, err := env.eval(strings.TrimSuffix(strings.TrimPrefix(item, `\mapof(`), ")"))
					if err != nil {
						u.W.fail("%s:%d: assigns of %s: %v", cl.File, cl.Line, c.Key, err)
						continue
					}
					mt, ok := av.Typ.Underlying().(*types.Map)
					if !ok {
						u.W.fail("%s:%d: \\mapof of non-map", cl.File, cl.Line)
						continue
					}
					dom, val := u.mapArrs(mt)
					f.frameExtra = "(= " + av.T + " 0)"
					f.frameCheckRef(st, in, dom, av.T, "callee "+what+" updates the entries of a map")
					f.frameExtra = ""
					d, vv := u.hget(st.heap, dom), u.hget(st.heap, val)
					nd := u.fresh("mapdom", "(Array "+u.D.SortOf(mt.Key())+" Bool)")
					nv := u.fresh("mapval", "(Array "+u.D.SortOf(mt.Key())+" "+u.D.SortOf(mt.Elem())+")")
					u.hset(st.heap, dom, sto(d, av.T, nd))
					u.hset(st.heap, val, sto(vv, av.T, nv))
					u.bumpHV(st.heap, false)
				case strings.HasPrefix(item, `\after(`):
					env.heap = pre
					av, err := env.eval(strings.TrimSuffix(strings.TrimPrefix(item, `\after(`), ")"))
					if err != nil {
						u.W.fail("%s:%d: assigns of %s: %v", cl.File, cl.Line, c.Key, err)
						continue
					}
					r := refOf(u, av)
					f.frameCheckRef(st, in, "", r, "callee "+what+" assigns "+item)
					st.heap = u.newHeap(&Link{kind: "freshonly", parent: st.heap, top: "(- " + r + " 1)"})
					u.bumpHV(st.heap, false)
				default:
					env.heap = pre
					l, err := env.evalLoc(item)
					if err != nil {
						u.W.fail("%s:%d: assigns of %s: %v", cl.File, cl.Line, c.Key, err)
						continue
					}
					f.frameCheckRef(st, in, l.Arr, l.Key, "callee "+what+" assigns "+item)
					if l.Arr == "" {
						// whole struct
						s := l.Typ.Underlying().(*types.Struct)
						for i := 0; i < s.NumFields(); i++ {
							a, _ := u.fieldArr(l.Typ, i)
							fv := u.fresh("asg", u.D.SortOf(s.Field(i).Type()))
							u.hset(st.heap, a, sto(u.hget(st.heap, a), l.Key, fv))
						}
					} else {
						fv := u.fresh("asg", u.D.SortOf(l.Typ))
						u.wellFormedLoaded(st.heap, fv, l.Typ)
						u.store(st.heap, l, fv)
					}
					u.bumpHV(st.heap, false)
				}
			}
		}
	}
	// exceptional outcome
	if c.Flags["maypanic"] || (!c.Flags["nopanic"] && c.Kind != "extern" && !pure) {
		f.mayPanic(st, in, what)
	}
	// results
	var rs []Val
	if pure && sig.Results().Len() == 1 {
		rs = []Val{u.W.pureApp(u, c, callee, sig, args, pre)}
	} else if pure && sig.Results().Len() > 1 {
		// a pure function with several results: one deterministic function per result
		for i := 0; i < sig.Results().Len(); i++ {
			rs = append(rs, u.W.pureAppN(u, c, callee, sig, args, pre, i))
		}
	} else {
		rs = f.resultVals(v, sig, "ret."+v.Name())
	}
	for _, r := range rs {
		u.wellFormedLoaded(st.heap, r.T, r.Typ)
	}
	f.bindResults(v, rs)
	f.recordTrace(tr, st, args, rs)
	// postconditions
	env.heap = st.heap
	env.oldHeap = pre
	env.setResults(sig, rs)
	// ghost (trace) state named by the callee's contract is the callee's own: see SpecEnv.ghostLocal
	callerGhosts := c.Kind == "func" && callee != nil && callee.Blocks != nil
	if callerGhosts {
		env.ghostLocal = map[string]Val{}
	}
	var posts []string
	for _, cl := range c.ClausesOf("ensures") {
		t, err := env.evalBool(cl.Text)
		if err != nil {
			if u.sweep {
				u.softFail("%s:%d: ensures of %s: %v", cl.File, cl.Line, c.Key, err)
				continue
			}
			u.W.fail("%s:%d: ensures of %s: %v", cl.File, cl.Line, c.Key, err)
			continue
		}
		posts = append(posts, t)
	}
	if callerGhosts {
		f.foldCalleeGhosts(st, callee, env.ghostLocal)
	}
	for _, t := range posts {
		u.assume(st.cur, t)
	}
	// `assume` clauses: facts about the callee that its own verification does not establish
	// (they are discharged by a different back end, named in the clause's remark); used at call
	// sites and listed in the trusted base of every unit that uses them
	for _, cl := range c.ClausesOf("assume") {
		// (a closure unit proves ALL clauses of its contract, also those tagged for other properties,
		// so it may use the assume clauses those clauses rest on; they are listed as trusted)
		if !cl.ForProp(c, u.Prop) && !u.closure {
			continue
		}
		t, err := env.evalBool(cl.Text)
		if err != nil {
			if u.sweep {
				u.softFail("%s:%d: assume of %s: %v", cl.File, cl.Line, c.Key, err)
				continue
			}
			u.W.fail("%s:%d: assume of %s: %v", cl.File, cl.Line, c.Key, err)
			continue
		}
		u.assume(st.cur, t)
		u.trusted["assumed clause of "+c.Target+" (not proved from its body): "+cl.Text] = true
	}
	if c.Kind == "extern" || c.Flags["trusted"] {
		u.trusted["assumed contract: "+c.Target] = true
	}
}

func (f *Frame) bindLets(env *SpecEnv, c *Contract) {
	for _, cl := range c.ClausesOf("let") {
		v, err := env.eval(cl.Text)
		if err != nil {
			f.u.W.fail("%s:%d: let %s: %v", cl.File, cl.Line, cl.Name, err)
			continue
		}
		env.vars[cl.Name] = v
	}
}

// inline executes the callee body in the caller's script.
func (f *Frame) inline(v ssa.Value, callee *ssa.Function, args []Val, st *state, tr *traceInfo) {
	u := f.u
	g := u.newFrame(callee, nil, f.depth+1)
	g.recoverVal = ""
	g.frame = f.frame
	if u.structKeys {
		g.summarise = f.summarise
		g.redirect = f.redirect
	}
	for i, p := range callee.Params {
		if i < len(args) {
			g.vals[p] = args[i]
		}
	}
	// free variables of closures
	mc := f.closureOverride
	if mc == nil {
		mc = f.closureOf(v)
	}
	if mc != nil {
		for i, fv := range callee.FreeVars {
			g.vals[fv] = f.val(mc.Bindings[i])
		}
	}
	g.localRefs = append([]string{}, f.localRefs...)
	g.run(st.heap, st.cur)
	f.finishInline(v, g, st)
	f.recordTrace(tr, st, args, f.inlineResults)
}

// foldCalleeGhosts: after a call by contract to a module function, the caller's trace state
// advances by what happened inside the call. For every trace tag the callee may fire (statically,
// transitively) or that its contract names: the caller's counter grows by the callee's count (the
// per-call constant bound in local, or an unknown non-negative number), the "last" values are the
// callee's if it fired at least once, sequences are unknown.
func (f *Frame) foldCalleeGhosts(st *state, callee *ssa.Function, local map[string]Val) {
	u := f.u
	tags := map[string]bool{}
	for t := range u.W.tagsFiredBy(callee) {
		tags[t] = true
	}
	for _, tr := range u.W.Traces {
		for name := range local {
			for _, pre := range []string{"n", "t", "recv", "arg", "ret", "seq", "rseq", "aseq", "bseq"} {
				if name == pre+tr.Tag {
					tags[tr.Tag] = true
				}
			}
		}
	}
	if len(tags) == 0 {
		return
	}
	u.scalar("$g.clock", "Int")
	oldClock := u.hget(st.heap, "$g.clock")
	nc := u.fresh("g.clock", "Int")
	u.emit("(assert (>= " + nc + " " + oldClock + "))")
	u.hset(st.heap, "$g.clock", nc)
	var ts []string
	for t := range tags {
		ts = append(ts, t)
	}
	sort.Strings(ts)
	for _, tag := range ts {
		u.scalar("$g.n"+tag, "Int")
		oldN := u.hget(st.heap, "$g.n"+tag)
		var cnt string
		if v, ok := local["n"+tag]; ok {
			cnt = v.T
		} else {
			cnt = u.fresh("callee.g.n"+tag, "Int")
			u.emit("(assert (>= " + cnt + " 0))")
		}
		u.hset(st.heap, "$g.n"+tag, "(+ "+oldN+" "+cnt+")")
		for _, pre := range []string{"t", "recv", "arg", "ret", "ret1"} {
			gi, ok := u.W.GhostSorts[pre+tag]
			if !ok {
				continue
			}
			u.scalar("$g."+pre+tag, gi.sort(u))
			oldV := u.hget(st.heap, "$g."+pre+tag)
			var nv string
			if v, ok := local[pre+tag]; ok && pre != "t" {
				nv = v.T
			} else {
				nv = u.fresh("g."+pre+tag, gi.sort(u))
			}
			u.hset(st.heap, "$g."+pre+tag, ite("(>= "+cnt+" 1)", nv, oldV))
		}
		for _, pre := range []string{"seq", "rseq", "aseq", "bseq"} {
			gi, ok := u.W.GhostSorts[pre+tag]
			if !ok {
				continue
			}
			u.scalar("$g."+pre+tag, gi.sort(u))
			oldS := u.hget(st.heap, "$g."+pre+tag)
			ns := u.fresh("g."+pre+tag, gi.sort(u))
			// the events recorded before the call keep their place in the sequence
			u.emit(fmt.Sprintf("(assert (forall ((i Int)) (! (=> (<= i %s) (= (select %s i) (select %s i))) :pattern ((select %s i)))))", oldN, ns, oldS, ns))
			u.hset(st.heap, "$g."+pre+tag, ns)
		}
	}
}

// cloAlt: one way a function-typed phi can get its value (a closure made on that edge, or nil).
type cloAlt struct {
	cond string
	val  Val
}

// dispatchClosures: a call through a phi of closures (the registerFunc pattern in Filter) is a
// case split over the edges the value can have come from; each closure body is executed under
// its edge condition and the outcomes are merged.
func (f *Frame) dispatchClosures(v ssa.Value, c *ssa.CallCommon, alts []cloAlt, args []Val, st *state, fv Val) {
	u := f.u
	in := v.(ssa.Instruction)
	f.check(st, "nilcall", "(not (= "+fv.T+" 0))", in, "call of nil function value")
	var conds []string
	var heaps []*Heap
	var results [][]Val
	for _, a := range alts {
		if a.val.Clo == nil {
			continue
		}
		callee := a.val.Clo.Fn.(*ssa.Function)
		sti := &state{cur: u.define("clo.sel", "Bool", and(st.cur, a.cond)), heap: st.heap.clone()}
		if callee.Blocks == nil || !inlinable(callee) || f.depth >= maxInlineDepth {
			u.inexact = true
			u.note("closure " + funcDisplayName(callee) + " not inlinable: result and heap havoced")
			f.havocCall(v, c.Signature(), sti, true, nil, args)
			f.mayPanic(sti, in, funcDisplayName(callee))
			f.inlineResults = nil
			if x, ok := f.vals[v]; ok {
				if x.Tup != nil {
					f.inlineResults = x.Tup
				} else if x.T != "" {
					f.inlineResults = []Val{x}
				}
			}
		} else {
			f.closureOverride = a.val.Clo
			f.inline(v, callee, args, sti, nil)
			f.closureOverride = nil
		}
		conds = append(conds, u.define("clo.after", "Bool", sti.cur))
		heaps = append(heaps, sti.heap)
		results = append(results, append([]Val{}, f.inlineResults...))
	}
	if len(conds) == 0 {
		st.cur = "false"
		return
	}
	st.cur = u.define("after.dispatch", "Bool", or(conds...))
	if len(heaps) == 1 {
		st.heap = heaps[0]
	} else {
		st.heap = u.newHeap(&Link{kind: "merge", preds: heaps, conds: conds})
	}
	n := len(results[0])
	var rs []Val
	for j := 0; j < n; j++ {
		term := results[len(results)-1][j].T
		typ := results[0][j].Typ
		for i := len(results) - 2; i >= 0; i-- {
			if len(results[i]) > j && results[i][j].T != term {
				term = ite(conds[i], results[i][j].T, term)
			}
		}
		rs = append(rs, Val{T: u.define("disp", u.D.SortOf(typ), term), Typ: typ})
	}
	f.bindResults(v, rs)
}

func (f *Frame) closureOf(v any) *ssa.MakeClosure {
	var cv ssa.Value
	switch c := v.(type) {
	case *ssa.Call:
		cv = c.Call.Value
	case *ssa.Defer:
		cv = c.Call.Value
	default:
		return nil
	}
	if mc, ok := cv.(*ssa.MakeClosure); ok {
		return mc
	}
	if x, ok := f.vals[cv]; ok && x.Clo != nil {
		return x.Clo
	}
	return nil
}

var _ = fmt.Sprint

func (f *Frame) finishInline(v ssa.Value, g *Frame, st *state) {
	u := f.u
	// propagate exceptional exits
	f.panConds = append(f.panConds, g.panConds...)
	f.panHeaps = append(f.panHeaps, g.panHeaps...)
	if len(g.retConds) == 0 {
		st.cur = "false"
		st.dead = false
		f.inlineResults = nil
		if v != nil {
			if sig, ok := g.fn.Type().(*types.Signature); ok {
				f.bindResults(v, f.resultVals(v, sig, "ret.dead"))
			}
		}
		return
	}
	// merge returns
	var conds []string
	for i, c := range g.retConds {
		conds = append(conds, u.define(fmt.Sprintf("ret%d", i), "Bool", c))
	}
	st.cur = u.define("after."+clip(g.fname, 20), "Bool", or(conds...))
	if len(g.retHeaps) == 1 {
		st.heap = g.retHeaps[0]
	} else {
		st.heap = u.newHeap(&Link{kind: "merge", preds: g.retHeaps, conds: conds})
	}
	n := len(g.retVals[0])
	var rs []Val
	for j := 0; j < n; j++ {
		// an address (of a package-level variable, a field, an element) returned on the only return
		// path keeps its location: `return &pkg.Var` followed by `*f()` in the caller
		if len(g.retVals) == 1 && g.retVals[0][j].Loc != nil && g.retVals[0][j].Addr {
			rs = append(rs, g.retVals[0][j])
			continue
		}
		term := g.retVals[len(g.retVals)-1][j].T
		typ := g.retVals[0][j].Typ
		for i := len(g.retVals) - 2; i >= 0; i-- {
			if g.retVals[i][j].T != term {
				term = ite(conds[i], g.retVals[i][j].T, term)
			}
		}
		rs = append(rs, Val{T: u.define("inl", u.D.SortOf(typ), term), Typ: typ})
	}
	f.inlineResults = rs
	f.localRefs = g.localRefs
	if v != nil {
		f.bindResults(v, rs)
	}
}

func (f *Frame) builtin(v ssa.Value, b *ssa.Builtin, c *ssa.CallCommon, st *state) {
	u := f.u
	arg := func(i int) Val { return f.val(c.Args[i]) }
	switch b.Name() {
	case "len":
		a := arg(0)
		switch t := c.Args[0].Type().Underlying().(type) {
		case *types.Slice:
			f.set(v, "(sl.len "+a.T+")")
		case *types.Basic:
			f.set(v, "(gs.len "+a.T+")")
		case *types.Map:
			fn := u.D.Fun("map.len", []string{u.D.SortOf(types.NewMap(t.Key(), types.Typ[types.Bool]))}, "Int")
			_ = fn
			dom, _ := u.mapArrs(t)
			r := u.define("maplen", "Int", ite("(= "+a.T+" 0)", "0", u.cardOf(sel(u.hget(st.heap, dom), a.T), t.Key())))
			u.emit("(assert (>= " + r + " 0))")
			f.set(v, r)
		case *types.Array:
			f.set(v, fmt.Sprint(t.Len()))
		case *types.Pointer:
			f.set(v, fmt.Sprint(t.Elem().Underlying().(*types.Array).Len()))
		default:
			f.havocVal(v, "len of "+c.Args[0].Type().String())
		}
	case "cap":
		if _, ok := c.Args[0].Type().Underlying().(*types.Slice); ok {
			f.set(v, u.sliceCap(arg(0).T))
		} else {
			f.havocVal(v, "cap")
		}
	case "append":
		f.appendOp(v, c, st)
	case "copy":
		// copy(dst, src): dst contents change
		dst := arg(0)
		if t, ok := c.Args[0].Type().Underlying().(*types.Slice); ok {
			arr, _ := u.elemArr(t.Elem())
			a := u.hget(st.heap, arr)
			u.hset(st.heap, arr, sto(a, "(sl.base "+dst.T+")", u.fresh("copied", "(Array Int "+u.D.SortOf(t.Elem())+")")))
			u.inexact = true
			u.note("copy(): destination contents havoced")
		}
		n := u.fresh("copy.n", "Int")
		u.emit("(assert (>= " + n + " 0))")
		f.set(v, n)
	case "delete":
		m := arg(0).T
		mt := c.Args[0].Type().Underlying().(*types.Map)
		dom, _ := u.mapArrs(mt)
		d := u.hget(st.heap, dom)
		u.hset(st.heap, dom, sto(d, m, sto(sel(d, m), arg(1).T, "false")))
	case "recover":
		if f.recoverVal != "" {
			f.set(v, f.recoverVal)
		} else {
			f.set(v, "(mk-iface 0 0)")
		}
	case "print", "println":
	case "min", "max":
		a, bb := arg(0).T, arg(1).T
		if u.D.SortOf(v.Type()) == "Int" && len(c.Args) == 2 {
			if b.Name() == "min" {
				f.setDef(v, ite("(<= "+a+" "+bb+")", a, bb))
			} else {
				f.setDef(v, ite("(>= "+a+" "+bb+")", a, bb))
			}
		} else {
			f.havocVal(v, b.Name())
		}
	case "ssa:wrapnilchk":
		f.vals[v] = arg(0)
	default:
		f.havocVal(v, "builtin "+b.Name())
	}
}

func (f *Frame) appendOp(v ssa.Value, c *ssa.CallCommon, st *state) {
	u := f.u
	s := f.val(c.Args[0])
	{
		// name the operand by a constant: its term may be an ite (map lookup), which cannot occur in patterns
		sv := u.fresh("app.src", "Slice")
		u.emit("(assert (= " + sv + " " + s.T + "))")
		s.T = sv
	}
	t := v.Type().Underlying().(*types.Slice)
	arr, _ := u.elemArr(t.Elem())
	es := u.D.SortOf(t.Elem())
	r := u.alloc(st.heap, v.Name())
	a := u.hget(st.heap, arr)
	// the appended elements: second arg is a slice (variadic packed) or a string
	var addLen string
	var addAt func(j string) string
	y := f.val(c.Args[1])
	if _, isSl := c.Args[1].Type().Underlying().(*types.Slice); isSl {
		yv := u.fresh("app.arg", "Slice")
		u.emit("(assert (= " + yv + " " + y.T + "))")
		y.T = yv
	}
	switch c.Args[1].Type().Underlying().(type) {
	case *types.Slice:
		addLen = "(sl.len " + y.T + ")"
		addAt = func(j string) string {
			return sel(sel(a, "(sl.base "+y.T+")"), "(sl.at "+y.T+" "+j+")")
		}
	default:
		addLen = "(gs.len " + y.T + ")"
		addAt = func(j string) string { return app("gs.at", y.T, j) }
	}
	// append either fits into the spare capacity (same backing array, written beyond the
	// old length) or reallocates; which one happens is not known statically
	fits := u.fresh("app.fits", "Bool")
	oldLen := "(sl.len " + s.T + ")"
	oldBase := "(sl.base " + s.T + ")"
	oldOff := "(sl.off " + s.T + ")"
	u.emit(fmt.Sprintf("(assert (=> %s (and (not (= %s 0)) (<= (+ %s %s) %s))))", fits, oldBase, oldLen, addLen, u.sliceCap(s.T)))
	u.emit(fmt.Sprintf("(assert (=> (> (+ %s %s) %s) (not %s)))", oldLen, addLen, u.sliceCap(s.T), fits))
	res := u.fresh("app."+v.Name(), "Slice")
	u.emit(fmt.Sprintf("(assert (= %s (mk-slice (ite %s %s %s) (ite %s %s 0) (+ %s %s))))", res, fits, oldBase, r, fits, oldOff, oldLen, addLen))
	na := u.fresh("app.data", "(Array Int "+es+")")
	// contents of the result's backing array: old prefix, then the new elements
	u.emit(fmt.Sprintf("(assert (forall ((j Int)) (! (=> (and (<= 0 j) (< j %s)) (= (select %s (sl.at %s j)) (select (select %s %s) (sl.at %s j)))) :pattern ((select %s (sl.at %s j))) :pattern ((sl.at %s j)))))", oldLen, na, res, a, oldBase, s.T, na, res, s.T))
	// (stated over the result index, so that a read of the result instantiates it; and over the
	// argument index, so that an element of the argument is found in the result)
	u.emit(fmt.Sprintf("(assert (forall ((i Int)) (! (=> (and (<= %s i) (< i (+ %s %s))) (= (select %s (sl.at %s i)) %s)) :pattern ((select %s (sl.at %s i))))))", oldLen, oldLen, addLen, na, res, addAt("(- i "+oldLen+")"), na, res))
	if _, isSlice := c.Args[1].Type().Underlying().(*types.Slice); isSlice {
		u.emit(fmt.Sprintf("(assert (forall ((j Int)) (! (=> (and (<= 0 j) (< j %s)) (= (select %s (sl.at %s (+ %s j))) %s)) :pattern ((sl.at %s j)))))", addLen, na, res, oldLen, addAt("j"), y.T))
	}
	// in place: everything outside the written range keeps its value
	u.emit(fmt.Sprintf("(assert (=> %s (forall ((i Int)) (! (=> (or (< i (+ %s %s)) (>= i (+ %s %s %s))) (= (select %s i) (select (select %s %s) i))) :pattern ((select %s i))))))", fits, oldOff, oldLen, oldOff, oldLen, addLen, na, a, oldBase, na))
	// common special case: a single appended element
	if n, ok := f.singleVariadic(c.Args[1]); ok {
		u.emit(fmt.Sprintf("(assert (= (select %s (sl.at %s %s)) %s))", na, res, oldLen, n))
	}
	u.hset(st.heap, arr, sto(a, "(sl.base "+res+")", na))
	f.vals[v] = Val{T: res, Typ: v.Type()}
	nc := u.sliceCap(res)
	u.emit(fmt.Sprintf("(assert (>= %s (sl.len %s)))", nc, res))
	u.note("append: in-place vs reallocation left open (capacity is uninterpreted); writes into spare capacity are not subject to frame obligations (assumption: no other live slice covers the spare capacity)")
}

// singleVariadic recognises the SSA pattern for append(s, x): a 1-element array slice.
func (f *Frame) singleVariadic(v ssa.Value) (string, bool) {
	sl, ok := v.(*ssa.Slice)
	if !ok {
		return "", false
	}
	al, ok := sl.X.(*ssa.Alloc)
	if !ok {
		return "", false
	}
	at, ok := al.Type().Underlying().(*types.Pointer).Elem().Underlying().(*types.Array)
	if !ok || at.Len() != 1 {
		return "", false
	}
	for _, ref := range *al.Referrers() {
		if ia, ok := ref.(*ssa.IndexAddr); ok {
			for _, r2 := range *ia.Referrers() {
				if s, ok := r2.(*ssa.Store); ok {
					return f.val(s.Val).T, true
				}
			}
		}
	}
	return "", false
}

// ---------- defers ----------

func (f *Frame) runDefers(st *state, recoverVal string) {
	u := f.u
	for i := len(f.defers) - 1; i >= 0; i-- {
		d := f.defers[i].call
		c := &d.Call
		var callee *ssa.Function
		switch cv := c.Value.(type) {
		case *ssa.MakeClosure:
			callee = cv.Fn.(*ssa.Function)
		case *ssa.Function:
			callee = cv
		default:
			if x, ok := f.vals[c.Value]; ok && x.Clo != nil {
				callee = x.Clo.Fn.(*ssa.Function)
			}
		}
		if callee == nil || callee.Blocks == nil {
			// deferred external (e.g. RUnlock): no modelled effect
			if callee != nil {
				u.trusted["deferred external "+funcDisplayName(callee)+": no modelled effect"] = true
			} else if c.IsInvoke() {
				u.inexact = true
				u.note("deferred interface call ignored in " + f.fname)
			}
			continue
		}
		var args []Val
		for _, a := range c.Args {
			args = append(args, f.val(a))
		}
		g := u.newFrame(callee, nil, f.depth+1)
		g.frame = f.frame
		g.recoverVal = recoverVal
		if recoverVal == "" {
			g.recoverVal = "(mk-iface 0 0)"
		}
		for j, p := range callee.Params {
			if j < len(args) {
				g.vals[p] = args[j]
			}
		}
		if mc := f.closureOf(d); mc != nil {
			for j, fv := range callee.FreeVars {
				g.vals[fv] = f.val(mc.Bindings[j])
			}
		}
		g.localRefs = append([]string{}, f.localRefs...)
		if !inlinable(callee) {
			u.inexact = true
			u.note("deferred function " + g.fname + " not inlinable: heap havoced")
			st.heap = u.newHeap(&Link{kind: "havoc", parent: st.heap})
			continue
		}
		g.run(st.heap, st.cur)
		f.finishInline(nil, g, st)
	}
}

func closureRecovers(fn *ssa.Function) bool {
	if fn == nil || fn.Blocks == nil {
		return false
	}
	for _, in := range fn.Blocks[0].Instrs {
		if c, ok := in.(*ssa.Call); ok {
			if b, ok := c.Call.Value.(*ssa.Builtin); ok && b.Name() == "recover" {
				return true
			}
		}
	}
	return false
}

// runRecover models the exceptional path: a panic somewhere in the body, deferred
// closures run with recover() != nil, then the Recover block returns.
func (f *Frame) runRecover() {
	u := f.u
	recovers := false
	for _, d := range f.defers {
		var callee *ssa.Function
		if mc, ok := d.call.Call.Value.(*ssa.MakeClosure); ok {
			callee = mc.Fn.(*ssa.Function)
		}
		if closureRecovers(callee) {
			recovers = true
		}
	}
	if !recovers {
		return
	}
	var conds []string
	for i, c := range f.panConds {
		conds = append(conds, u.define(fmt.Sprintf("pan%d", i), "Bool", c))
	}
	cur := u.define("panicking", "Bool", or(conds...))
	var heap *Heap
	if len(f.panHeaps) == 1 {
		heap = f.panHeaps[0].clone()
	} else {
		heap = u.newHeap(&Link{kind: "merge", preds: f.panHeaps, conds: conds})
	}
	// the panic is handled: it no longer propagates
	f.panConds, f.panHeaps = nil, nil
	rv := u.fresh("recovered", "Iface")
	u.emit("(assert (not (= (if.typ " + rv + ") 0)))")
	st := &state{cur: cur, heap: heap}
	u.scalar("$g.panicked", "Bool")
	u.hset(st.heap, "$g.panicked", "true")
	f.runDefers(st, rv)
	// Recover block
	b := f.fn.Recover
	for _, in := range b.Instrs {
		f.instr(in, st)
		if st.dead {
			break
		}
	}
}

// ---------- loops ----------

func (f *Frame) loopModSet(ls *loopState) map[string]bool {
	u := f.u
	mod := map[string]bool{}
	for bi := range ls.blocks {
		for _, in := range f.fn.Blocks[bi].Instrs {
			switch x := in.(type) {
			case *ssa.Store:
				for _, a := range f.rootArrays(x.Addr) {
					mod[a] = true
				}
				mod["$hv"] = true
			case *ssa.MapUpdate:
				mt := x.Map.Type().Underlying().(*types.Map)
				d, v := u.mapArrs(mt)
				mod[d], mod[v] = true, true
				mod["$top"] = true
			case *ssa.Alloc, *ssa.MakeMap, *ssa.MakeSlice, *ssa.MakeClosure, *ssa.MakeChan:
				mod["$top"] = true
				if al, ok := x.(*ssa.Alloc); ok {
					el := al.Type().Underlying().(*types.Pointer).Elem()
					if s, ok := el.Underlying().(*types.Struct); ok {
						for i := 0; i < s.NumFields(); i++ {
							a, _ := u.fieldArr(el, i)
							mod[a] = true
						}
					} else {
						a, _ := u.cellArr(el)
						mod[a] = true
					}
				}
				if ms, ok := x.(*ssa.MakeSlice); ok {
					a, _ := u.elemArr(ms.Type().Underlying().(*types.Slice).Elem())
					mod[a] = true
				}
				if mm, ok := x.(*ssa.MakeMap); ok {
					d, _ := u.mapArrs(mm.Type().Underlying().(*types.Map))
					mod[d] = true
				}
			case *ssa.Convert:
				mod["$top"] = true
				if sl, ok := x.Type().Underlying().(*types.Slice); ok {
					a, _ := u.elemArr(sl.Elem())
					mod[a] = true
				}
			case *ssa.Slice:
				mod["$top"] = true
			case *ssa.Call:
				f.callModSet(&x.Call, mod)
			case *ssa.Defer, *ssa.Go:
				mod["*"] = true
			case *ssa.Next:
				if r, ok := x.Iter.(*ssa.Range); ok {
					if _, isMap := r.X.Type().Underlying().(*types.Map); isMap {
						mod[f.visitedName(r)] = true
					}
				}
			case *ssa.Range:
				if _, isMap := x.X.Type().Underlying().(*types.Map); isMap {
					mod[f.visitedName(x)] = true
				}
			}
		}
	}
	return mod
}

func (f *Frame) callModSet(c *ssa.CallCommon, mod map[string]bool) {
	u := f.u
	if b, ok := c.Value.(*ssa.Builtin); ok {
		switch b.Name() {
		case "append":
			mod["$top"] = true
			if sl, ok := c.Args[0].Type().Underlying().(*types.Slice); ok {
				a, _ := u.elemArr(sl.Elem())
				mod[a] = true
			}
		case "copy":
			if sl, ok := c.Args[0].Type().Underlying().(*types.Slice); ok {
				a, _ := u.elemArr(sl.Elem())
				mod[a] = true
			}
		case "delete":
			d, _ := u.mapArrs(c.Args[0].Type().Underlying().(*types.Map))
			mod[d] = true
		}
		return
	}
	var contract *Contract
	var callee *ssa.Function
	if clos := closureEdges(c.Value); clos != nil && !c.IsInvoke() {
		// a call through a phi of closures: union over the closures it may denote
		for _, fn := range clos {
			if fn.Blocks == nil || !inlinable(fn) || f.depth >= maxInlineDepth {
				mod["*"] = true
				continue
			}
			g := u.newFrame(fn, nil, f.depth+1)
			g.analyseLoops()
			all := &loopState{blocks: map[int]bool{}}
			for _, b := range fn.Blocks {
				all.blocks[b.Index] = true
			}
			for k := range g.loopModSet(all) {
				mod[k] = true
			}
		}
		return
	}
	if c.IsInvoke() {
		contract = u.W.interfaceContract(c.Value.Type(), c.Method)
	} else if fn, ok := c.Value.(*ssa.Function); ok {
		callee = fn
		contract = u.W.funcContract(fn)
		if contract == nil && fn.Blocks == nil {
			contract = u.W.externContract(fn)
			if contract == nil {
				return // externals: no modelled effect
			}
		}
	}
	// traces update ghost state
	for _, tr := range u.W.Traces {
		if tr.matches(u.W, callee, c) {
			for _, g := range []string{"$g.clock", "$g.n" + tr.Tag, "$g.t" + tr.Tag, "$g.recv" + tr.Tag, "$g.arg" + tr.Tag, "$g.ret" + tr.Tag, "$g.seq" + tr.Tag, "$g.rseq" + tr.Tag, "$g.aseq" + tr.Tag, "$g.bseq" + tr.Tag} {
				mod[g] = true
			}
		}
	}
	if contract == nil {
		if callee != nil && callee.Blocks != nil && inlinable(callee) && f.depth < maxInlineDepth {
			g := u.newFrame(callee, nil, f.depth+1)
			g.analyseLoops()
			all := &loopState{blocks: map[int]bool{}}
			for _, b := range callee.Blocks {
				all.blocks[b.Index] = true
			}
			for k := range g.loopModSet(all) {
				mod[k] = true
			}
			return
		}
		mod["*"] = true
		return
	}
	if contract.Flags["pure"] {
		return
	}
	as := contract.ClausesOf("assigns")
	if len(as) == 0 {
		if contract.Kind != "extern" {
			mod["*"] = true
		}
		return
	}
	// a location named relative to an interior-pointer argument (&x.f) lives in the arrays of the
	// enclosing object
	for _, a := range c.Args {
		switch a.(type) {
		case *ssa.FieldAddr, *ssa.IndexAddr:
			for _, ra := range f.rootArrays(a) {
				mod[ra] = true
			}
		}
	}
	for _, cl := range as {
		for _, item := range splitTop(cl.Text, ',') {
			item = strings.TrimSpace(item)
			switch item {
			case `\nothing`, "nothing":
			case `\fresh`, "fresh":
				mod["$top"] = true
				mod["*fresh"] = true
			case `\all`:
				mod["*"] = true
			default:
				if strings.HasPrefix(item, `\elems(`) || strings.HasPrefix(item, `\mapof(`) {
					// the heap arrays these live in depend only on the type of the expression
					inner := strings.TrimSuffix(item[strings.Index(item, "(")+1:], ")")
					if t := f.assignsExprType(contract, callee, c, inner); t != nil {
						switch tt := t.Underlying().(type) {
						case *types.Slice:
							a, _ := u.elemArr(tt.Elem())
							mod[a] = true
							mod["$hv"] = true
							continue
						case *types.Map:
							d, v := u.mapArrs(tt)
							mod[d], mod[v] = true, true
							mod["$hv"] = true
							continue
						}
					}
					mod["*"] = true
					continue
				}
				if strings.HasPrefix(item, `\after(`) {
					mod["*"] = true
					continue
				}
				// a location expression: the heap array it lives in depends only on types
				if arr := f.assignsArray(contract, callee, c, item); arr != "" {
					mod[arr] = true
					mod["$hv"] = true
				} else {
					mod["*"] = true
				}
			}
		}
	}
}

func (f *Frame) rootArrays(addr ssa.Value) []string {
	u := f.u
	switch a := addr.(type) {
	case *ssa.FieldAddr:
		if _, ok := a.X.(*ssa.FieldAddr); ok {
			return f.rootArrays(a.X)
		}
		if _, ok := a.X.(*ssa.IndexAddr); ok {
			return f.rootArrays(a.X)
		}
		st := a.X.Type().Underlying().(*types.Pointer).Elem()
		n, _ := u.fieldArr(st, a.Field)
		return []string{n}
	case *ssa.IndexAddr:
		switch t := a.X.Type().Underlying().(type) {
		case *types.Slice:
			n, _ := u.elemArr(t.Elem())
			return []string{n}
		case *types.Pointer:
			return f.rootArrays(a.X)
		}
	case *ssa.Global:
		if g, ok := a.Object().(*types.Var); ok {
			n, _ := u.globalCell(g)
			return []string{n}
		}
	}
	if pt, ok := addr.Type().Underlying().(*types.Pointer); ok {
		el := pt.Elem()
		if s, ok := el.Underlying().(*types.Struct); ok {
			var out []string
			for i := 0; i < s.NumFields(); i++ {
				n, _ := u.fieldArr(el, i)
				out = append(out, n)
			}
			return out
		}
		n, _ := u.cellArr(el)
		return []string{n}
	}
	return []string{"*"}
}

// enterLoop: assert invariants on entry, havoc, assume invariants.
func (f *Frame) enterLoop(b *ssa.BasicBlock, ls *loopState, preds []*ssa.BasicBlock, conds []string, heap *Heap, cur string) (string, *Heap) {
	u := f.u
	ord := f.loopOrd[b.Index]
	var invs []*Clause
	if f.contract != nil {
		invs = f.contract.LoopClauses(ord, "invariant")
	}
	// entry values of phis
	ls.phiEntry = map[*ssa.Phi]Val{}
	var phis []*ssa.Phi
	for _, in := range b.Instrs {
		phi, ok := in.(*ssa.Phi)
		if !ok {
			break
		}
		phis = append(phis, phi)
		f.definePhi(phi, b, preds, conds)
		ls.phiEntry[phi] = f.vals[phi]
	}
	ls.preHeap = heap
	ls.preCur = cur
	if len(invs) == 0 && f.top {
		u.inexact = true
		u.note(fmt.Sprintf("loop %d of %s has no invariant: loop state havoced without constraint", ord, f.fname))
	}
	// init obligations
	if f.top {
		env := f.specEnvAt(b, heap)
		for _, cl := range invs {
			if !cl.ForProp(f.contract, u.Prop) {
				continue
			}
			t, err := env.evalBool(cl.Text)
			if err != nil {
				u.W.fail("%s:%d: loop %d invariant: %v", cl.File, cl.Line, ord, err)
				continue
			}
			u.oblige(fmt.Sprintf("loop%d.init", ord), f.fname, cur, t, cl.File+":"+fmt.Sprint(cl.Line), cl.Text)
		}
	}
	// havoc
	mod := f.loopModSet(ls)
	if os.Getenv("GOVC_DEBUG_MOD") != "" {
		var ks []string
		for k := range mod {
			ks = append(ks, k)
		}
		sort.Strings(ks)
		fmt.Fprintf(os.Stderr, "modset of loop %d in %s: %v\n", ord, f.fname, ks)
	}
	if mod["*fresh"] && !mod["*"] {
		// callee writes only fresh memory: arrays keep old contents at old refs
		heap = u.newHeap(&Link{kind: "freshonly", parent: heap})
		delete(mod, "*fresh")
		heap = u.newHeap(&Link{kind: "loop", parent: heap, mod: mod, keep: append([]string{}, f.localRefs...), frame: f.loopFrame()})
	} else {
		heap = u.newHeap(&Link{kind: "loop", parent: heap, mod: mod, keep: append([]string{}, f.localRefs...), frame: f.loopFrame()})
	}
	for _, phi := range phis {
		x := u.fresh("loop."+clip(phi.Comment, 16), u.D.SortOf(phi.Type()))
		u.assumeRange(x, phi.Type())
		if f.freshOrNilSlice(phi) {
			// a slice that starts nil (or freshly made) and is only ever re-assigned the result
			// of append(itself, ...) is nil or backed by memory allocated during this activation
			u.emit(fmt.Sprintf("(assert (or (= (sl.base %s) 0) (> (sl.base %s) %s)))", x, x, u.top0))
		}
		if isRangeIndex(phi) {
			// go/ssa lowers `range` over a slice/array to an index that starts at -1 and is
			// incremented once per iteration: -1 <= index is inductive by construction
			u.emit("(assert (>= " + x + " (- 1)))")
		}
		if step, ok := inductionStep(phi, b); ok && ls.phiEntry[phi].T != "" {
			// an integer that every back edge reaches as itself plus a constant of one sign only
			// moves away from its entry value: entry <= i (or i <= entry) is inductive by
			// construction (mathematical integers, like everything in these units)
			if step > 0 {
				u.emit("(assert (>= " + x + " " + ls.phiEntry[phi].T + "))")
			} else if step < 0 {
				u.emit("(assert (<= " + x + " " + ls.phiEntry[phi].T + "))")
			}
			// every back edge moves it by the same constant c: its distance from the entry value
			// is a multiple of c (`for i := n-1; i >= 0; i -= 4`)
			if _, stride, ok := inductionStride(phi, b); ok && stride > 1 {
				u.emit(fmt.Sprintf("(assert (= (mod (- %s %s) %d) 0))", x, ls.phiEntry[phi].T, stride))
			}
		}
		f.vals[phi] = Val{T: x, Typ: phi.Type()}
		u.wellFormedLoaded(heap, x, phi.Type())
	}
	ncur := u.fresh(fmt.Sprintf("loop%d.iter", ord), "Bool")
	// an arbitrary iteration is only reached through the loop entry: everything that held
	// on the path to the loop (facts about immutable SSA values) still holds
	u.emit("(assert " + implies(ncur, cur) + ")")
	// assume invariants
	env := f.specEnvAt(b, heap)
	for _, cl := range invs {
		t, err := env.evalBool(cl.Text)
		if err != nil {
			continue
		}
		u.assume(ncur, t)
	}
	if f.top && !u.sweep {
		o := u.oblige(fmt.Sprintf("loop%d.cover", ord), f.fname, "true", ncur, "", "loop head reachable under invariant")
		o.Cover = true
	}
	return ncur, heap
}

// loopFrame: the frame that bounds what a loop of the function under contract may change.
func (f *Frame) loopFrame() *frameSpec {
	if !f.top || f.frame == nil || f.frame.all || f.contract == nil || !f.contract.Flags["loopframe"] {
		// (sound for every function with an assigns clause; requested per contract with the
		// `loopframe` flag because the quantified preservation facts cost solver time where the
		// proof does not need them)
		return nil
	}
	return f.frame
}

// closeLoop: preservation obligations at a back edge.
func (f *Frame) closeLoop(from, header *ssa.BasicBlock, st *state) {
	u := f.u
	if !f.top || f.contract == nil {
		return
	}
	ord := f.loopOrd[header.Index]
	invs := f.contract.LoopClauses(ord, "invariant")
	if len(invs) == 0 {
		return
	}
	// phi values along this edge
	saved := map[*ssa.Phi]Val{}
	idx := -1
	for i, p := range header.Preds {
		if p == from {
			idx = i
		}
	}
	for _, in := range header.Instrs {
		phi, ok := in.(*ssa.Phi)
		if !ok {
			break
		}
		saved[phi] = f.vals[phi]
		f.vals[phi] = f.val(phi.Edges[idx])
	}
	env := f.specEnvAt(header, st.heap)
	guard := f.edgeCond(from, header)
	for _, cl := range invs {
		if !cl.ForProp(f.contract, u.Prop) {
			continue
		}
		t, err := env.evalBool(cl.Text)
		if err != nil {
			u.W.fail("%s:%d: loop %d invariant: %v", cl.File, cl.Line, ord, err)
			continue
		}
		u.oblige(fmt.Sprintf("loop%d.preserve", ord), f.fname, guard, t, cl.File+":"+fmt.Sprint(cl.Line), cl.Text)
	}
	for phi, v := range saved {
		f.vals[phi] = v
	}
}

// checkPost: postconditions at a return of the function under contract.
func (f *Frame) checkPost(ret *ssa.Return, st *state, vs []Val) {
	u := f.u
	if f.contract == nil {
		return
	}
	env := f.specEnvAt(ret.Block(), st.heap)
	env.oldHeap = f.entryHeap
	sig := f.fn.Signature
	env.setResults(sig, vs)
	f.bindLets(env, f.contract)
	for _, cl := range f.contract.ClausesOf("ensures") {
		if !cl.ForProp(f.contract, u.Prop) {
			continue
		}
		t, err := env.evalBool(cl.Text)
		if err != nil {
			u.W.fail("%s:%d: ensures: %v", cl.File, cl.Line, err)
			continue
		}
		// big finite conjunctions (forLits) are decided conjunct by conjunct: small queries
		if os.Getenv("GOVC_SPLIT") != "" && (strings.HasPrefix(t, "(=> ") || strings.HasPrefix(t, "(and ")) {
			// debugging aid: (=> A (and c1 .. cn)) / (and c1 .. cn) decided conjunct by conjunct
			ante, body := "true", t
			if strings.HasPrefix(t, "(=> ") {
				inner := topConjuncts("(and " + t[4:len(t)-1] + ")")
				if len(inner) == 2 {
					ante, body = inner[0], inner[1]
				}
			}
			flat := []string{body}
			for changed := true; changed; {
				changed = false
				var nf []string
				for _, p := range flat {
					if ps := topConjuncts(p); len(ps) > 1 {
						nf = append(nf, ps...)
						changed = true
					} else {
						nf = append(nf, p)
					}
				}
				flat = nf
			}
			for _, p := range flat {
				u.oblige("post", f.fname, st.cur, implies(ante, p), cl.File+":"+fmt.Sprint(cl.Line), clip(p, 300))
			}
			u.assume(st.cur, t)
			continue
		}
		if parts := topConjuncts(t); len(parts) > 8 {
			for _, p := range parts {
				u.oblige("post", f.fname, st.cur, p, cl.File+":"+fmt.Sprint(cl.Line), cl.Text)
			}
		} else {
			u.oblige("post", f.fname, st.cur, t, cl.File+":"+fmt.Sprint(cl.Line), cl.Text)
		}
		// later clauses may rely on earlier ones (assert A; assert B)
		u.assume(st.cur, t)
	}
}

// splitTop splits s at sep outside parentheses/brackets.
func splitTop(s string, sep byte) []string {
	var out []string
	d := 0
	last := 0
	for i := 0; i < len(s); i++ {
		switch s[i] {
		case '(', '[', '{':
			d++
		case ')', ']', '}':
			d--
		default:
			if s[i] == sep && d == 0 {
				out = append(out, s[last:i])
				last = i + 1
			}
		}
	}
	out = append(out, s[last:])
	return out
}


// ---------- frame (assigns) obligations of the function under contract ----------

type frameSpec struct {
	top0   string   // $top at entry: anything above is fresh
	afters []string // refs: memory at or after these may change
	locs   []*Loc   // explicit locations
	all    bool
}

func refOf(u *Unit, v Val) string {
	if u.D.SortOf(v.Typ) == "Iface" {
		return "(if.val " + v.T + ")"
	}
	if u.D.SortOf(v.Typ) == "Slice" {
		return "(sl.base " + v.T + ")"
	}
	return v.T
}

func (f *Frame) frameCheckRef(st *state, in ssa.Instruction, arr, ref, what string) {
	fs := f.frame
	if fs == nil || fs.all {
		return
	}
	u := f.u
	var alts []string
	if f.frameExtra != "" {
		alts = append(alts, f.frameExtra)
	}
	if ref != "" {
		alts = append(alts, "(> "+ref+" "+fs.top0+")")
		for _, a := range fs.afters {
			alts = append(alts, "(>= "+ref+" "+a+")")
		}
	}
	for _, l := range fs.locs {
		if l.Arr == arr || l.Arr == "" {
			if l.Key == "" && ref == "" {
				alts = append(alts, "true")
			} else if l.Key != "" && ref != "" {
				alts = append(alts, eq(ref, l.Key))
			}
		}
	}
	u.oblige("frame", f.fname, st.cur, or(alts...), posStr(u.W.Fset, in.Pos()), "write outside the assigns clause: "+what)
}

func (f *Frame) frameCheckAll(st *state, in ssa.Instruction, what string) {
	fs := f.frame
	if fs == nil || fs.all {
		return
	}
	f.u.oblige("frame", f.fname, st.cur, "false", posStr(f.u.W.Fset, in.Pos()), "call with unbounded effects inside a function with an assigns clause: "+what)
}


// recovers: the activation has a deferred closure that calls recover().
func (f *Frame) recovers() bool {
	for _, d := range f.defers {
		if mc, ok := d.call.Call.Value.(*ssa.MakeClosure); ok {
			if closureRecovers(mc.Fn.(*ssa.Function)) {
				return true
			}
		}
	}
	return false
}


// isRangeIndex recognises go/ssa's hidden range index: phi [-1, phi+1].
func isRangeIndex(phi *ssa.Phi) bool {
	if phi.Comment != "rangeindex" || len(phi.Edges) < 2 {
		return false
	}
	okInit, okInc := false, false
	for _, e := range phi.Edges {
		switch x := e.(type) {
		case *ssa.Const:
			if x.Value != nil && x.Value.ExactString() == "-1" {
				okInit = true
				continue
			}
			return false
		case *ssa.BinOp:
			if x.Op == token.ADD && x.X == phi {
				if c, ok := x.Y.(*ssa.Const); ok && c.Value != nil && c.Value.ExactString() == "1" {
					okInc = true
					continue
				}
			}
			return false
		default:
			return false
		}
	}
	return okInit && okInc
}

// assignsArray resolves the heap array named by an assigns item of a callee contract,
// using dummy argument terms (only the types matter).
func (f *Frame) assignsArray(contract *Contract, callee *ssa.Function, c *ssa.CallCommon, item string) (arr string) {
	u := f.u
	defer func() {
		if r := recover(); r != nil {
			arr = ""
		}
	}()
	var args []Val
	if c.IsInvoke() {
		args = append(args, Val{T: "(mk-iface 0 0)", Typ: c.Value.Type()})
	}
	for _, a := range c.Args {
		args = append(args, Val{T: u.D.Zero(a.Type()), Typ: a.Type()})
	}
	env := u.W.calleeEnv(u, contract, callee, c.Signature(), args)
	env.heap = f.entryHeap
	env.oldHeap = f.entryHeap
	if env.heap == nil {
		// (a frame that is only analysed, e.g. a closure body: any heap will do, only types matter)
		env.heap = u.scratchHeap()
		env.oldHeap = env.heap
	}
	l, err := env.evalLoc(item)
	if err != nil || l == nil {
		return ""
	}
	if l.Arr == "" {
		return ""
	}
	return l.Arr
}


// assignsExprType: static type of an expression of a callee's assigns clause.
func (f *Frame) assignsExprType(contract *Contract, callee *ssa.Function, c *ssa.CallCommon, expr string) (t types.Type) {
	u := f.u
	defer func() {
		if r := recover(); r != nil {
			t = nil
		}
	}()
	var args []Val
	if c.IsInvoke() {
		args = append(args, Val{T: "(mk-iface 0 0)", Typ: c.Value.Type()})
	}
	for _, a := range c.Args {
		args = append(args, Val{T: u.D.Zero(a.Type()), Typ: a.Type()})
	}
	env := u.W.calleeEnv(u, contract, callee, c.Signature(), args)
	env.heap = f.entryHeap
	env.oldHeap = f.entryHeap
	if env.heap == nil {
		env.heap = u.scratchHeap()
		env.oldHeap = env.heap
	}
	v, err := env.eval(expr)
	if err != nil {
		return nil
	}
	return v.Typ
}

// closureEdges: the functions a function-typed value can denote when it is a phi of closures
// (and nil); nil if the value is anything else.
func closureEdges(v ssa.Value) []*ssa.Function {
	phi, ok := v.(*ssa.Phi)
	if !ok {
		return nil
	}
	var out []*ssa.Function
	for _, e := range phi.Edges {
		switch x := e.(type) {
		case *ssa.MakeClosure:
			out = append(out, x.Fn.(*ssa.Function))
		case *ssa.Const:
			if x.Value != nil {
				return nil
			}
		default:
			return nil
		}
	}
	return out
}

// topConjuncts splits "(and a b c)" into its arguments.
func topConjuncts(t string) []string {
	if !strings.HasPrefix(t, "(and ") {
		return nil
	}
	body := t[5 : len(t)-1]
	var out []string
	d, start, inq := 0, 0, false
	for i := 0; i < len(body); i++ {
		c := body[i]
		if c == '|' {
			inq = !inq
		}
		if inq {
			continue
		}
		switch c {
		case '(':
			d++
		case ')':
			d--
		case ' ':
			if d == 0 {
				if i > start {
					out = append(out, body[start:i])
				}
				start = i + 1
			}
		}
	}
	if start < len(body) {
		out = append(out, body[start:])
	}
	return out
}


// atCallAsserts: "atcall <callee> <ordinal> <expr>" clauses of the function under contract
// are in-body assertions evaluated just before the N-th call of that callee.
func (f *Frame) atCallAsserts(in ssa.Instruction, what string, st *state, args []Val) {
	if !f.top || f.contract == nil {
		return
	}
	u := f.u
	for _, cl := range f.contract.ClausesOf("atcall") {
		fs := strings.Fields(cl.Text)
		if len(fs) < 3 || !strings.HasSuffix(what, fs[0]) {
			continue
		}
		if f.callCount == nil {
			f.callCount = map[string]int{}
		}
		key := cl.Text
		f.callCount[key]++
		var ord int
		fmt.Sscanf(fs[1], "%d", &ord)
		if f.callCount[key] != ord {
			continue
		}
		if !cl.ForProp(f.contract, u.Prop) {
			continue
		}
		expr := strings.TrimSpace(strings.TrimPrefix(strings.TrimSpace(strings.TrimPrefix(cl.Text, fs[0])), fs[1]))
		env := f.specEnvAt(in.Block(), st.heap)
		// callarg<i>: the operands of this call (receiver first for a method)
		for i, a := range args {
			env.vars[fmt.Sprintf("callarg%d", i)] = a
		}
		t, err := env.evalBool(expr)
		if err != nil {
			u.W.fail("%s:%d: atcall: %v", cl.File, cl.Line, err)
			continue
		}
		u.oblige("assert", f.fname, st.cur, t, cl.File+":"+fmt.Sprint(cl.Line), expr)
		u.assume(st.cur, t)
	}
}


// inlinableSweep: in schematic mode helpers with loops are inlined too (their loops are
// cut and havoced like any loop without invariant).
func inlinableSweep(fn *ssa.Function) bool {
	if fn.Blocks == nil || len(fn.Blocks) > 120 || fn.Recover != nil {
		return false
	}
	for _, b := range fn.Blocks {
		for _, in := range b.Instrs {
			switch in.(type) {
			case *ssa.Defer, *ssa.Go, *ssa.Select:
				return false
			}
		}
	}
	return true
}


// returnsVerdict: the function returns a *lint.LintResult or a lint.LintStatus.
func returnsVerdict(fn *ssa.Function) bool {
	rs := fn.Signature.Results()
	var ts []types.Type
	for i := 0; i < rs.Len(); i++ {
		ts = append(ts, rs.At(i).Type())
	}
	// out-parameters count as results
	ps := fn.Signature.Params()
	for i := 0; i < ps.Len(); i++ {
		if _, ok := ps.At(i).Type().(*types.Pointer); ok {
			ts = append(ts, ps.At(i).Type())
		}
	}
	for _, t := range ts {
		if pt, ok := t.(*types.Pointer); ok {
			t = pt.Elem()
		}
		if n, ok := t.(*types.Named); ok && n.Obj().Pkg() != nil && strings.HasSuffix(n.Obj().Pkg().Path(), "/lint") {
			if n.Obj().Name() == "LintResult" || n.Obj().Name() == "LintStatus" {
				return true
			}
		}
	}
	return false
}


// abstractCall: result_i = abs:<fn>#i(args..., heap version). Same arguments in the same heap
// state give the same result (the callee is read-only and deterministic by the C05 frame).
func (f *Frame) abstractCall(v ssa.Value, callee *ssa.Function, sig *types.Signature, st *state, args []Val) {
	u := f.u
	var sorts, ts []string
	ok := true
	local := map[string]bool{}
	for _, r := range f.allocRefs {
		local[r] = true
	}
	var outs []Val
	for _, a := range args {
		if a.T == "" || (a.Loc != nil && (a.Addr || !u.structKeys)) {
			// (a value merely loaded from a location is an ordinary value; the pair obligations
			// rely on that, the older sweeps keep their behaviour)
			ok = false
			break
		}
		if pv, boxed := f.localIfaces[a.T]; boxed && a.T != "" {
			outs = append(outs, pv)
			continue
		}
		if _, isPtr := a.Typ.Underlying().(*types.Pointer); isPtr && local[a.T] {
			// an out-parameter pointing to a variable of this frame: where it was allocated is
			// irrelevant to the callee's result; what the callee stores there is a function of
			// the other arguments
			outs = append(outs, a)
			continue
		}
		sorts = append(sorts, u.D.SortOf(a.Typ))
		ts = append(ts, a.T)
	}
	if !ok {
		if f.pendingCall != nil {
			f.havocLocalPointees(f.pendingCall, st)
		}
		f.havocCall(v, sig, st, false, nil, args)
		return
	}
	u.scalar("$hv", "Int")
	sorts = append(sorts, "Int")
	ts = append(ts, u.hget(st.heap, "$hv"))
	calleeName := callee.String()
	if u.structKeys {
		calleeName = u.W.calleeKey(callee, f.redirect)
	}
	// the same external may be abstracted with and without an out-parameter among its operands (a
	// receiver that is a local here, a parameter there): one function symbol per operand shape
	arity := ""
	if len(outs) > 0 {
		arity = fmt.Sprintf("/%d-%d", len(sorts), len(outs))
	}
	for k, a := range outs {
		el := a.Typ.Underlying().(*types.Pointer).Elem()
		if stt, isSt := el.Underlying().(*types.Struct); isSt {
			for i := 0; i < stt.NumFields(); i++ {
				arr, _ := u.fieldArr(el, i)
				es := u.D.SortOf(stt.Field(i).Type())
				if strings.HasPrefix(es, "(Array") {
					continue // embedded array fields: left as they are
				}
				fn := u.D.Fun(fmt.Sprintf("abs:%s#out%d.%d%s", calleeName, k, i, arity), sorts, es)
				t := u.define("abs", es, app(fn, ts...))
				u.assumeRange(t, stt.Field(i).Type())
				u.hset(st.heap, arr, sto(u.hget(st.heap, arr), a.T, t))
			}
			continue
		}
		arr, _ := u.cellArr(el)
		es := u.D.SortOf(el)
		fn := u.D.Fun(fmt.Sprintf("abs:%s#out%d%s", calleeName, k, arity), sorts, es)
		t := u.define("abs", es, app(fn, ts...))
		u.assumeRange(t, el)
		u.wellFormedLoaded(st.heap, t, el)
		u.hset(st.heap, arr, sto(u.hget(st.heap, arr), a.T, t))
	}
	var rs []Val
	for i := 0; i < sig.Results().Len(); i++ {
		rt := sig.Results().At(i).Type()
		fn := u.D.Fun(fmt.Sprintf("abs:%s#%d%s", calleeName, i, arity), sorts, u.D.SortOf(rt))
		t := u.define("abs", u.D.SortOf(rt), app(fn, ts...))
		u.assumeRange(t, rt)
		u.wellFormedLoaded(st.heap, t, rt)
		rs = append(rs, Val{T: t, Typ: rt})
	}
	f.bindResults(v, rs)
}


// freshOrNilSlice recognises the accumulator pattern `var s []T; for ... { s = append(s, ...) }`.
func (f *Frame) freshOrNilSlice(phi *ssa.Phi) bool {
	if _, ok := phi.Type().Underlying().(*types.Slice); !ok || f.u.top0 == "" {
		return false
	}
	seen := map[ssa.Value]bool{}
	var ok func(v ssa.Value, depth int) bool
	ok = func(v ssa.Value, depth int) bool {
		if depth > 6 {
			return false
		}
		if v == phi || seen[v] {
			return true
		}
		seen[v] = true
		switch x := v.(type) {
		case *ssa.Const:
			return x.Value == nil
		case *ssa.MakeSlice:
			return true
		case *ssa.Phi:
			for _, e := range x.Edges {
				if !ok(e, depth+1) {
					return false
				}
			}
			return true
		case *ssa.Call:
			if b, isB := x.Call.Value.(*ssa.Builtin); isB && b.Name() == "append" {
				return ok(x.Call.Args[0], depth+1)
			}
		case *ssa.Slice:
			// a slice literal: slice of a fresh array
			if al, isAl := x.X.(*ssa.Alloc); isAl && !f.escaped[al] {
				return true
			}
		}
		return false
	}
	for _, e := range phi.Edges {
		if !ok(e, 0) {
			return false
		}
	}
	return true
}

// inductionStep: phi is an integer loop variable whose every back-edge value is phi itself or
// phi plus/minus a non-negative constant; the sign of the steps (all >= 0: +1, all <= 0: -1).
// inductionStride: like inductionStep, and the common absolute step when every back edge adds the
// same constant (0 otherwise).
func inductionStride(phi *ssa.Phi, header *ssa.BasicBlock) (sign int, stride int64, ok bool) {
	sign, ok = inductionStep(phi, header)
	if !ok {
		return 0, 0, false
	}
	stride = -1
	for i, e := range phi.Edges {
		if !header.Dominates(header.Preds[i]) || e == ssa.Value(phi) {
			if header.Dominates(header.Preds[i]) && e == ssa.Value(phi) {
				return sign, 0, true // an iteration that leaves the variable alone
			}
			continue
		}
		bo := e.(*ssa.BinOp)
		var c *ssa.Const
		if bo.X == ssa.Value(phi) {
			c, _ = bo.Y.(*ssa.Const)
		} else {
			c, _ = bo.X.(*ssa.Const)
		}
		k, _ := constant.Int64Val(c.Value)
		if k < 0 {
			k = -k
		}
		if stride == -1 {
			stride = k
		} else if stride != k {
			return sign, 0, true
		}
	}
	if stride < 0 {
		stride = 0
	}
	return sign, stride, true
}

func inductionStep(phi *ssa.Phi, header *ssa.BasicBlock) (int, bool) {
	bt, ok := phi.Type().Underlying().(*types.Basic)
	if !ok || bt.Info()&types.IsInteger == 0 {
		return 0, false
	}
	sign := 0
	nback := 0
	for i, e := range phi.Edges {
		pred := header.Preds[i]
		if !header.Dominates(pred) {
			continue // entry edge
		}
		nback++
		if e == ssa.Value(phi) {
			continue
		}
		bo, ok := e.(*ssa.BinOp)
		if !ok || (bo.Op != token.ADD && bo.Op != token.SUB) {
			return 0, false
		}
		var c *ssa.Const
		if bo.X == ssa.Value(phi) {
			c, _ = bo.Y.(*ssa.Const)
		} else if bo.Y == ssa.Value(phi) && bo.Op == token.ADD {
			c, _ = bo.X.(*ssa.Const)
		}
		if c == nil || c.Value == nil || c.Value.Kind() != constant.Int {
			return 0, false
		}
		k, exact := constant.Int64Val(c.Value)
		if !exact {
			return 0, false
		}
		if bo.Op == token.SUB {
			k = -k
		}
		s := 0
		if k > 0 {
			s = 1
		} else if k < 0 {
			s = -1
		}
		if s != 0 {
			if sign != 0 && sign != s {
				return 0, false
			}
			sign = s
		}
	}
	if nback == 0 || sign == 0 {
		return 0, false
	}
	return sign, true
}
