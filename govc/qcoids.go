package main

// Census behind the package invariant qcOidsDistinct() of util (C02): the six ETSI QC statement
// identifiers are initialised by composite literals of integer constants that differ pairwise.
// (oidEq is the equality of the integer sequences - the assumed meaning of ObjectIdentifier.Equal -
// so different literals are unequal identifiers; that nobody writes the variables afterwards is the
// `stable` census of the invariant.)
//
// And the implementation census of util.EtsiQcStmtIf: the interface contract (IsPresent returns
// qcPresent(this), GetErrorInfo returns qcErr(this), no panic, for the dynamic types listed in
// qcKnown) is justified type by type - each listed type implements the interface BY VALUE and gets
// both methods from an embedded etsiBase at depth one (or is etsiBase), whose two methods are under
// contract themselves; so what the interface call returns is the field the spec functions name.

import (
	"fmt"
	"go/types"
	"regexp"
	"strings"
)

var qcOidNames = []string{"IdEtsiQcsQcCompliance", "IdEtsiQcsQcLimitValue", "IdEtsiQcsQcRetentionPeriod", "IdEtsiQcsQcSSCD", "IdEtsiQcsQcEuPDS", "IdEtsiQcsQcType"}

func init() {
	pkgInvCensus["qcoids"] = censusQcOids
	extraEngines["C02"] = append(extraEngines["C02"], censusQcIfaceImpl)
}

func censusQcOids(w *World, r *Report) []*Obligation {
	pkg := w.ModPath + "/util"
	vals := map[string]string{}
	var problems []string
	for _, n := range qcOidNames {
		t, err := w.intTable(pkg, n)
		if err != nil {
			problems = append(problems, err.Error())
			continue
		}
		if len(t) == 0 {
			problems = append(problems, n+" is empty")
		}
		vals[n] = strings.Join(t, ".")
	}
	for i, a := range qcOidNames {
		for _, b := range qcOidNames[i+1:] {
			if vals[a] == vals[b] {
				problems = append(problems, fmt.Sprintf("%s and %s are the same identifier %s", a, b, vals[a]))
			}
		}
	}
	return []*Obligation{censusObl(r.Prop, r.Prop+"/util.qcOids/distinct#1", "census", "", "the six ETSI QC statement identifiers are pairwise different integer sequences", len(problems) == 0, strings.Join(problems, "; "))}
}

func censusQcIfaceImpl(w *World, r *Report) []*Obligation {
	pkgPath := w.ModPath + "/util"
	p := w.pkgByPath(pkgPath)
	name := "C02/util.EtsiQcStmtIf/iface-impl#1"
	if p == nil {
		return nil
	}
	itn, _ := p.Scope().Lookup("EtsiQcStmtIf").(*types.TypeName)
	btn, _ := p.Scope().Lookup("etsiBase").(*types.TypeName)
	sp := w.CS.Specs[pkgPath+"::qcKnown"]
	if sp == nil {
		sp = w.CS.Specs["qcKnown"]
	}
	if itn == nil || btn == nil || sp == nil {
		return []*Obligation{censusObl("C02", name, "census", "", "EtsiQcStmtIf, etsiBase and the spec qcKnown exist", false, "interface, base type or spec function not found")}
	}
	iface, _ := itn.Type().Underlying().(*types.Interface)
	var problems []string
	listed := regexp.MustCompile(`typeIs\(x, (\w+)\)`).FindAllStringSubmatch(sp.Body, -1)
	if len(listed) == 0 {
		problems = append(problems, "qcKnown lists no type")
	}
	for _, c := range []string{"(etsiBase).IsPresent", "(etsiBase).GetErrorInfo"} {
		fc := w.CS.ByKey[pkgPath+"::"+c]
		if fc == nil || !fc.Flags["nopanic"] || !fc.HasProp("C02") {
			problems = append(problems, c+" has no nopanic contract claimed for C02")
		}
	}
	for _, m := range listed {
		tn, _ := p.Scope().Lookup(m[1]).(*types.TypeName)
		if tn == nil {
			problems = append(problems, "type "+m[1]+" not found")
			continue
		}
		if iface == nil || !types.Implements(tn.Type(), iface) {
			problems = append(problems, m[1]+" does not implement EtsiQcStmtIf by value")
			continue
		}
		for _, mn := range []string{"IsPresent", "GetErrorInfo"} {
			obj, path, _ := types.LookupFieldOrMethod(tn.Type(), false, p, mn)
			fn, _ := obj.(*types.Func)
			if fn == nil {
				problems = append(problems, m[1]+"."+mn+" not found")
				continue
			}
			recv := fn.Type().(*types.Signature).Recv().Type()
			if !types.Identical(recv, btn.Type()) {
				problems = append(problems, fmt.Sprintf("%s.%s is not the method of etsiBase (receiver %s)", m[1], mn, recv))
				continue
			}
			if tn != btn {
				st, _ := tn.Type().Underlying().(*types.Struct)
				if len(path) != 2 || st == nil || !st.Field(path[0]).Embedded() || st.Field(path[0]).Name() != "etsiBase" {
					problems = append(problems, fmt.Sprintf("%s.%s is not promoted from a directly embedded etsiBase", m[1], mn))
				}
			}
		}
	}
	return []*Obligation{censusObl("C02", name, "census", posStr(w.Fset, itn.Pos()), "every dynamic type listed in qcKnown implements EtsiQcStmtIf by value with the two methods of a directly embedded etsiBase (which are under contract): the interface contract holds for each of them", len(problems) == 0, strings.Join(problems, "; "))}
}
