package main

// Relational obligations for C17 (DESIGN §2.7): a `range` loop over a list of names or
// extensions is summarised by executing its body symbolically for two adjacent elements, in
// both orders, from an arbitrary loop state; the obligation `commute` says that the observable
// outcome (whether the function returns from inside the loop, with which status, and the
// loop-carried values otherwise) is the same. Invariance under adjacent transpositions gives
// invariance under all permutations (meta-lemma, /verif/spec/meta.lean).

import (
	"fmt"
	"go/token"
	"go/types"
	"sort"
	"strings"

	"golang.org/x/tools/go/ssa"
)

func init() {
	extraEngines["C17"] = append(extraEngines["C17"], c17Commute)
}

var c17Lists = map[string]bool{"DNSNames": true, "IPAddresses": true, "URIs": true, "EmailAddresses": true, "OtherNames": true,
	"DirectoryNames": true, "EDIPartyNames": true, "RegisteredIDs": true, "Extensions": true}

type iterOutcome struct {
	exitConds []string
	exitVals  []string // status (or returned bool) per exit
	contConds []string
	contPhis  []map[*ssa.Phi]Val
	contHeaps []*Heap
	inexact   string
}

// loopScope: the loop's blocks plus the early-exit blocks dominated by a body block.
func loopScope(fn *ssa.Function, ls *loopState) map[int]bool {
	scope := map[int]bool{}
	for b := range ls.blocks {
		scope[b] = true
	}
	for _, b := range fn.Blocks {
		if scope[b.Index] {
			continue
		}
		for bi := range ls.blocks {
			body := fn.Blocks[bi]
			if body != ls.header && body.Dominates(b) {
				scope[b.Index] = true
			}
		}
	}
	return scope
}

// runIteration executes one pass through the loop body from the given state.
func (f *Frame) runIteration(ls *loopState, scope map[int]bool, phis map[*ssa.Phi]Val, heap *Heap, cur string, statusOf func(v Val, h *Heap) string) *iterOutcome {
	u := f.u
	out := &iterOutcome{}
	// forget everything computed inside the scope by an earlier iteration
	for _, b := range f.fn.Blocks {
		if !scope[b.Index] {
			continue
		}
		delete(f.endCur, b.Index)
		delete(f.endHeap, b.Index)
		delete(f.reach, b.Index)
		for _, in := range b.Instrs {
			if v, ok := in.(ssa.Value); ok {
				delete(f.vals, v)
				delete(f.nonNil, v)
			}
		}
	}
	f.retConds, f.retVals, f.retHeaps = nil, nil, nil
	f.iterHeader = ls.header
	f.iterPhis = phis
	f.iterCont = nil
	f.summarise = true
	f.edgeOver, f.summarised = nil, nil
	for _, b := range f.order() {
		if !scope[b.Index] {
			continue
		}
		if b == ls.header {
			f.runBlock(b, heap, cur)
			// the iteration takes place: the loop condition holds
			if iff, ok := b.Instrs[len(b.Instrs)-1].(*ssa.If); ok && len(b.Succs) == 2 {
				c := f.val(iff.Cond).T
				inLoop0 := ls.blocks[b.Succs[0].Index] && b.Succs[0] != b
				if !inLoop0 {
					c = not(c)
				}
				f.endCur[b.Index] = u.define("iter", "Bool", and(f.endCur[b.Index], c))
			}
			continue
		}
		f.runBlock(b, heap, cur)
	}
	for i, c := range f.retConds {
		out.exitConds = append(out.exitConds, c)
		if len(f.retVals[i]) == 0 {
			out.exitVals = append(out.exitVals, "0")
			continue
		}
		out.exitVals = append(out.exitVals, statusOf(f.retVals[i][0], f.retHeaps[i]))
	}
	for _, c := range f.iterCont {
		out.contConds = append(out.contConds, c.cond)
		out.contPhis = append(out.contPhis, c.phis)
		out.contHeaps = append(out.contHeaps, c.heap)
	}
	// paths that leave the scope without returning (break into code after the loop)
	for _, b := range f.fn.Blocks {
		if !scope[b.Index] || b == ls.header {
			continue
		}
		if _, done := f.endCur[b.Index]; !done {
			continue
		}
		for _, s := range b.Succs {
			if !scope[s.Index] {
				out.inexact = fmt.Sprintf("the loop is left by a jump to block %d (break/goto), which the summary does not follow", s.Index)
			}
		}
	}
	f.iterHeader = nil
	f.summarise = false
	return out
}

type iterCont struct {
	cond string
	phis map[*ssa.Phi]Val
	heap *Heap
}

// commuteObligation builds the obligation for one loop of one function.
func (w *World) commuteObligation(name string, fn *ssa.Function, hIdx int, src string) (o *Obligation, unit *Unit, errText string) {
	o, _, unit, errText = w.commuteObligations(name, fn, hIdx, src)
	return
}

func (w *World) commuteObligations(name string, fn *ssa.Function, hIdx int, src string) (o, cover *Obligation, unit *Unit, errText string) {
	u := NewUnit(w, name, "C17")
	u.sweep = true
	unit = u
	defer func() {
		if r := recover(); r != nil {
			errText = fmt.Sprint(r)
		}
	}()
	f := u.newFrame(fn, nil, 0)
	f.top = false
	f.analyseLoops()
	f.computeEscapes()
	ls := f.loopInfo[hIdx]
	if ls == nil {
		return nil, nil, u, "no such loop"
	}
	scope := loopScope(fn, ls)
	heap0 := u.newHeap(&Link{kind: "entry"})
	u.scalar("$top", "Int")
	u.top0 = u.hget(heap0, "$top")
	for _, p := range fn.Params {
		x := u.fresh("param."+p.Name(), u.D.SortOf(p.Type()))
		f.vals[p] = Val{T: x, Typ: p.Type()}
		u.assumeRange(x, p.Type())
		u.wellFormedLoaded(heap0, x, p.Type())
		if _, ok := p.Type().Underlying().(*types.Pointer); ok {
			u.emit("(assert (not (= " + x + " 0)))")
		}
	}
	// run the code that precedes the loop (the blocks dominating the header) normally, so that
	// values computed before the loop (lengths, parsed names, maps) have their real definitions
	f.entryHeap = heap0.clone()
	for _, b := range f.order() {
		if b != ls.header && b.Dominates(ls.header) {
			f.runBlock(b, heap0, "true")
		}
	}
	var preConds []string
	var preHeaps []*Heap
	for _, p := range ls.header.Preds {
		if f.backEdges[[2]int{p.Index, ls.header.Index}] {
			continue
		}
		if _, done := f.endCur[p.Index]; !done {
			continue
		}
		preConds = append(preConds, u.define("pre", "Bool", f.edgeCond(p, ls.header)))
		preHeaps = append(preHeaps, f.endHeap[p.Index])
	}
	if len(preConds) == 0 {
		return nil, nil, u, "loop not reachable"
	}
	baseCur := u.define("atloop", "Bool", or(preConds...))
	u.emit("(assert " + baseCur + ")")
	var baseHeap *Heap
	if len(preHeaps) == 1 {
		baseHeap = preHeaps[0].clone()
	} else {
		baseHeap = u.newHeap(&Link{kind: "merge", preds: preHeaps, conds: preConds})
	}
	// an arbitrary iteration: what the loop itself modifies is unknown
	baseHeap = u.newHeap(&Link{kind: "loop", parent: baseHeap, mod: f.loopModSet(ls), keep: append([]string{}, f.localRefs...)})
	heap0 = baseHeap
	// the hidden range index and the slices it indexes
	var idxPhi *ssa.Phi
	var otherPhis []*ssa.Phi
	for _, in := range ls.header.Instrs {
		phi, ok := in.(*ssa.Phi)
		if !ok {
			break
		}
		if isRangeIndex(phi) {
			idxPhi = phi
		} else {
			otherPhis = append(otherPhis, phi)
		}
	}
	if idxPhi == nil {
		return nil, nil, u, "not a range-over-slice loop"
	}
	var idxVal ssa.Value
	for _, in := range ls.header.Instrs {
		if bo, ok := in.(*ssa.BinOp); ok && bo.Op == token.ADD && bo.X == idxPhi {
			idxVal = bo
		}
	}
	i0 := u.fresh("pos", "Int")
	u.emit("(assert (>= " + i0 + " 0))")
	// slices indexed by the range index inside the loop: their elements at pos, pos+1 are swapped in run B
	type ranged struct {
		term string
		elem types.Type
	}
	var rs []ranged
	seenTerm := map[string]bool{}
	for bi := range ls.blocks {
		for _, in := range fn.Blocks[bi].Instrs {
			ia, ok := in.(*ssa.IndexAddr)
			if !ok || ia.Index != idxVal {
				continue
			}
			st, ok := ia.X.Type().Underlying().(*types.Slice)
			if !ok {
				continue
			}
			t, ok := f.evalOutside(ia.X, ls, heap0)
			if !ok {
				return nil, nil, u, "the ranged slice is computed inside the loop in a way the summary cannot evaluate up front"
			}
			if !seenTerm[t] {
				seenTerm[t] = true
				rs = append(rs, ranged{t, st.Elem()})
				if _, pre := c17Source(ia.X); pre != nil {
					// entries appended to the list (a common name, say) keep their place: both
					// visited positions lie in the list proper
					if pt, ok := f.evalOutside(pre, ls, heap0); ok {
						u.emit(fmt.Sprintf("(assert (< (+ %s 1) (sl.len %s)))", i0, pt))
					} else {
						return nil, nil, u, "the list that entries were appended to cannot be evaluated before the loop"
					}
				}
			}
		}
	}
	if len(rs) == 0 {
		return nil, nil, u, "no slice indexed by the range index"
	}
	for _, r := range rs {
		u.emit(fmt.Sprintf("(assert (< (+ %s 1) (sl.len %s)))", i0, r.term))
	}
	// C17 speaks of certificates without duplicated extensions: the two entries of an extension
	// list have different identifiers
	for _, r := range rs {
		nt, ok := r.elem.(*types.Named)
		if !ok || nt.Obj().Name() != "Extension" {
			continue
		}
		stt, ok := nt.Underlying().(*types.Struct)
		if !ok {
			continue
		}
		arr, _ := u.elemArr(r.elem)
		row := sel(u.hget(heap0, arr), "(sl.base "+r.term+")")
		x := Val{T: sel(row, fmt.Sprintf("(sl.at %s %s)", r.term, i0)), Typ: r.elem}
		y := Val{T: sel(row, fmt.Sprintf("(sl.at %s (+ %s 1))", r.term, i0)), Typ: r.elem}
		for i := 0; i < stt.NumFields(); i++ {
			if stt.Field(i).Name() != "Id" {
				continue
			}
			env := &SpecEnv{u: u, pkg: fn.Pkg.Pkg, vars: map[string]Val{"x": x, "y": y}, heap: heap0, oldHeap: heap0}
			t, err := env.evalBool("!oidEq(x.Id, y.Id)")
			if err != nil {
				return nil, nil, u, "no-duplicate-extension hypothesis: " + err.Error()
			}
			u.emit("(assert " + t + ")")
			u.note("hypothesis of C17: the certificate has no duplicated extension (the two visited entries have different identifiers)")
		}
	}
	heapA := heap0.clone()
	heapB := heap0.clone()
	for _, r := range rs {
		arr, _ := u.elemArr(r.elem)
		a := u.hget(heapB, arr)
		base := "(sl.base " + r.term + ")"
		p0 := fmt.Sprintf("(sl.at %s %s)", r.term, i0)
		p1 := fmt.Sprintf("(sl.at %s (+ %s 1))", r.term, i0)
		row := sel(a, base)
		u.hset(heapB, arr, sto(a, base, sto(sto(row, p0, sel(row, p1)), p1, sel(row, p0))))
	}
	// result observation
	rt := fn.Signature.Results()
	statusOf := func(v Val, h *Heap) string {
		if pt, ok := v.Typ.Underlying().(*types.Pointer); ok {
			if s, ok := pt.Elem().Underlying().(*types.Struct); ok {
				for i := 0; i < s.NumFields(); i++ {
					if s.Field(i).Name() == "Status" {
						arr, _ := u.fieldArr(pt.Elem(), i)
						return sel(u.hget(h, arr), v.T)
					}
				}
			}
		}
		if u.D.SortOf(v.Typ) == "Bool" {
			return ite(v.T, "1", "0")
		}
		if u.D.SortOf(v.Typ) == "Int" {
			return v.T
		}
		return "0"
	}
	_ = rt
	// arbitrary values of the other loop-carried variables
	start := map[*ssa.Phi]Val{}
	for _, phi := range otherPhis {
		x := u.fresh("carried."+clip(phi.Comment, 16), u.D.SortOf(phi.Type()))
		u.assumeRange(x, phi.Type())
		u.wellFormedLoaded(heap0, x, phi.Type())
		if f.freshOrNilSlice(phi) {
			u.emit(fmt.Sprintf("(assert (or (= (sl.base %s) 0) (> (sl.base %s) %s)))", x, x, u.top0))
		}
		start[phi] = Val{T: x, Typ: phi.Type()}
	}
	type runResult struct {
		exited, status string
		second         string // the second entry is reached
		phis           map[*ssa.Phi]string
		inexact        string
	}
	run := func(tag string, heap *Heap) runResult {
		ph := map[*ssa.Phi]Val{idxPhi: {T: "(- " + i0 + " 1)", Typ: idxPhi.Type()}}
		for k, v := range start {
			ph[k] = v
		}
		o1 := f.runIteration(ls, scope, ph, heap, "true", statusOf)
		res := runResult{phis: map[*ssa.Phi]string{}, inexact: o1.inexact}
		exit1 := u.define(tag+".exit1", "Bool", or(o1.exitConds...))
		st1 := "0"
		for i := len(o1.exitConds) - 1; i >= 0; i-- {
			st1 = ite(o1.exitConds[i], o1.exitVals[i], st1)
		}
		st1 = u.define(tag+".status1", "Int", st1)
		// merged continue state
		if len(o1.contConds) == 0 {
			res.exited, res.status = exit1, st1
			return res
		}
		var conds []string
		for i, c := range o1.contConds {
			conds = append(conds, u.define(fmt.Sprintf("%s.cont%d", tag, i), "Bool", c))
		}
		cont1 := u.define(tag+".cont", "Bool", or(conds...))
		res.second = cont1
		var h2 *Heap
		if len(o1.contHeaps) == 1 {
			h2 = o1.contHeaps[0]
		} else {
			h2 = u.newHeap(&Link{kind: "merge", preds: o1.contHeaps, conds: conds})
		}
		ph2 := map[*ssa.Phi]Val{idxPhi: {T: i0, Typ: idxPhi.Type()}}
		for _, phi := range otherPhis {
			t := o1.contPhis[len(conds)-1][phi].T
			for i := len(conds) - 2; i >= 0; i-- {
				if o1.contPhis[i][phi].T != t {
					t = ite(conds[i], o1.contPhis[i][phi].T, t)
				}
			}
			ph2[phi] = Val{T: u.define(tag+".c."+clip(phi.Comment, 12), u.D.SortOf(phi.Type()), t), Typ: phi.Type()}
		}
		o2 := f.runIteration(ls, scope, ph2, h2, cont1, statusOf)
		if o2.inexact != "" {
			res.inexact = o2.inexact
		}
		exit2 := u.define(tag+".exit2", "Bool", or(o2.exitConds...))
		st2 := "0"
		for i := len(o2.exitConds) - 1; i >= 0; i-- {
			st2 = ite(o2.exitConds[i], o2.exitVals[i], st2)
		}
		res.exited = u.define(tag+".exited", "Bool", or(exit1, exit2))
		res.status = u.define(tag+".status", "Int", ite(exit1, st1, st2))
		var c2 []string
		for i, c := range o2.contConds {
			c2 = append(c2, u.define(fmt.Sprintf("%s.cont2_%d", tag, i), "Bool", c))
		}
		for _, phi := range otherPhis {
			if len(c2) == 0 {
				continue
			}
			t := o2.contPhis[len(c2)-1][phi].T
			for i := len(c2) - 2; i >= 0; i-- {
				if o2.contPhis[i][phi].T != t {
					t = ite(c2[i], o2.contPhis[i][phi].T, t)
				}
			}
			res.phis[phi] = t
		}
		return res
	}
	ra := run("A", heapA)
	rb := run("B", heapB)
	goal := and(eq(ra.exited, rb.exited), implies(ra.exited, eq(ra.status, rb.status)))
	for _, phi := range otherPhis {
		if _, isSlice := phi.Type().Underlying().(*types.Slice); isSlice {
			// accumulated lists may differ in order; their length must agree
			if ra.phis[phi] != "" && rb.phis[phi] != "" {
				goal = and(goal, implies(not(ra.exited), eq("(sl.len "+ra.phis[phi]+")", "(sl.len "+rb.phis[phi]+")")))
			}
			continue
		}
		if ra.phis[phi] != "" && rb.phis[phi] != "" {
			goal = and(goal, implies(not(ra.exited), eq(ra.phis[phi], rb.phis[phi])))
		}
	}
	o = u.oblige("commute", name, "true", goal, src, "visiting two adjacent entries in either order gives the same outcome (return from inside the loop, returned status, loop-carried values)")
	if ra.inexact != "" || rb.inexact != "" {
		o.Note += " [summary incomplete: " + ra.inexact + rb.inexact + "]"
	}
	// vacuity guard: the hypotheses admit a run that visits both entries in both orders
	if ra.second != "" && rb.second != "" {
		cover = u.oblige("commute.cover", name, "true", and(ra.second, rb.second), src, "both entries can be visited in both orders under the hypotheses")
		cover.Cover = true
	}
	return o, cover, u, ""
}

// c17Source recognises a SAN name list / the extension list of a certificate: a load of the
// field, the parsed-names accessor, or such a list with further entries appended (then prefix
// is the list itself: only its entries are re-ordered).
func c17Source(v ssa.Value) (name string, prefix ssa.Value) {
	switch x := v.(type) {
	case *ssa.UnOp:
		if fa, ok := x.X.(*ssa.FieldAddr); ok && x.Op == token.MUL {
			st := fa.X.Type().Underlying().(*types.Pointer).Elem().Underlying().(*types.Struct)
			if c17Lists[st.Field(fa.Field).Name()] && isX509Cert(fa.X.Type()) {
				return st.Field(fa.Field).Name(), nil
			}
		}
	case *ssa.Call:
		if c := x.Call.StaticCallee(); c != nil && strings.Contains(c.Name(), "GetParsedDNSNames") {
			return "ParsedDNSNames", nil
		}
		if b, ok := x.Call.Value.(*ssa.Builtin); ok && b.Name() == "append" && len(x.Call.Args) > 0 {
			if nm, pre := c17Source(x.Call.Args[0]); nm != "" && pre == nil {
				return nm + "+appended", x.Call.Args[0]
			}
		}
	}
	return "", nil
}

// evalOutside evaluates a slice-valued SSA value that does not depend on the loop iteration:
// defined before the loop, or a load of a field of such a value.
func (f *Frame) evalOutside(v ssa.Value, ls *loopState, heap *Heap) (string, bool) {
	inLoop := func(x ssa.Value) bool {
		in, ok := x.(ssa.Instruction)
		return ok && in.Block() != nil && ls.blocks[in.Block().Index]
	}
	if !inLoop(v) {
		x := f.val(v)
		if x.T == "" {
			return "", false
		}
		f.u.wellFormedLoaded(heap, x.T, v.Type())
		return x.T, true
	}
	if ld, ok := v.(*ssa.UnOp); ok && ld.Op == token.MUL {
		if fa, ok := ld.X.(*ssa.FieldAddr); ok && !inLoop(fa.X) {
			base := f.val(fa.X)
			if base.T == "" {
				return "", false
			}
			st0 := fa.X.Type().Underlying().(*types.Pointer).Elem()
			arr, _ := f.u.fieldArr(st0, fa.Field)
			t := sel(f.u.hget(heap, arr), base.T)
			f.u.wellFormedLoaded(heap, t, v.Type())
			return t, true
		}
	}
	return "", false
}

// c17Commute: one commute obligation per loop over a SAN name list or over the extension list,
// in every registered lint (CheckApplies and Execute) and in the util helpers they call.
func c17Commute(w *World, r *Report) []*Obligation {
	type site struct {
		name string
		fn   *ssa.Function
		h    int
		src  string
		lint string
	}
	var sites []site
	seenFn := map[*ssa.Function]bool{}
	addFn := func(fn *ssa.Function, lint string) {
		if fn == nil || fn.Blocks == nil || seenFn[fn] {
			return
		}
		seenFn[fn] = true
		f := (&Unit{W: w, ordinals: map[string]int{}}).newFrame(fn, nil, 0)
		f.analyseLoops()
		var hs []int
		for h := range f.loopInfo {
			hs = append(hs, h)
		}
		sort.Ints(hs)
		for _, h := range hs {
			ls := f.loopInfo[h]
			field := ""
			// the loop's own hidden range index (the list must be indexed by it, not by the index of a nested loop)
			var own ssa.Value
			for _, in := range ls.header.Instrs {
				if bo, ok := in.(*ssa.BinOp); ok && bo.Op == token.ADD {
					if phi, ok := bo.X.(*ssa.Phi); ok && phi.Block() == ls.header && isRangeIndex(phi) {
						own = bo
					}
				}
			}
			for bi := range ls.blocks {
				for _, in := range fn.Blocks[bi].Instrs {
					ia, ok := in.(*ssa.IndexAddr)
					if !ok || ia.Index != own {
						continue
					}
					if nm, _ := c17Source(ia.X); nm != "" {
						field = nm
					}
				}
			}
			if field == "" {
				continue
			}
			ord := f.loopOrd[h]
			nm := lint
			if nm == "" {
				nm = funcDisplayName(fn)
			}
			sites = append(sites, site{name: fmt.Sprintf("%s.%s.loop%d(%s)", nm, fn.Name(), ord, field), fn: fn, h: h, src: posStr(w.Fset, fn.Blocks[h].Instrs[0].Pos()), lint: lint})
		}
	}
	for _, li := range w.Lints() {
		if li.Kind != "cert" && li.Kind != "legacy" {
			continue
		}
		addFn(li.CheckApplies, li.Name)
		addFn(li.Execute, li.Name)
	}
	// helpers reachable from lint code (module functions), in a stable order
	var helpers []*ssa.Function
	for fn := range w.lintReachable() {
		if !seenFn[fn] {
			helpers = append(helpers, fn)
		}
	}
	sort.Slice(helpers, func(i, j int) bool { return helpers[i].String() < helpers[j].String() })
	for _, fn := range helpers {
		addFn(fn, "")
	}
	var out []*Obligation
	var solve []*Obligation
	for _, s := range sites {
		if r.Only != "" && !strings.Contains(s.name, r.Only) {
			continue
		}
		o, cov, u, errText := w.commuteObligations(s.name, s.fn, s.h, s.src)
		if o == nil {
			out = append(out, &Obligation{Name: "C17/loops/commute#" + s.name, Prop: "C17", Kind: "commute", Status: "unknown", Src: s.src, Note: "loop summary could not be built: " + errText})
			continue
		}
		o.Name = "C17/loops/commute#" + s.name
		o.Func = "loops"
		r.Units = append(r.Units, u)
		out = append(out, o)
		solve = append(solve, o)
		if cov != nil {
			cov.Name = "C17/loops/commute.cover#" + s.name
			cov.Func = "loops"
			out = append(out, cov)
			solve = append(solve, cov)
		}
	}
	SolveAll(solve, r.QDir, r.Timeout, r.Tier == "thorough", 10)
	r.Extra["loops_over_names_or_extensions"] = len(sites)
	ranged, measured, other := c17ListUses(w)
	r.Extra["list_reads_ranged_by_a_summarised_loop"] = ranged
	r.Extra["list_reads_only_measured"] = measured
	r.Extra["list_reads_not_decided"] = other
	r.Trusted = append(r.Trusted,
		"invariance under adjacent transpositions implies invariance under all permutations (meta-lemma; stated in /verif/spec/meta.lean)",
		"helpers that do not return a verdict and externals are deterministic functions of their arguments; loop-carried heap state is threaded through both iterations but not compared at the end")
	return out
}

// c17ListUses classifies every read of a SAN name list / of the extension list in lint-reachable
// code: ranged by a summarised loop (decided by a commute obligation), measured (len, nil test:
// order-independent by construction), or handed elsewhere (reported, not decided).
func c17ListUses(w *World) (ranged, measured int, other []string) {
	var fns []*ssa.Function
	for fn := range w.lintReachable() {
		fns = append(fns, fn)
	}
	sort.Slice(fns, func(i, j int) bool { return fns[i].String() < fns[j].String() })
	for _, fn := range fns {
		for _, b := range fn.Blocks {
			for _, in := range b.Instrs {
				var list ssa.Value
				name := ""
				switch x := in.(type) {
				case *ssa.UnOp:
					if fa, ok := x.X.(*ssa.FieldAddr); ok && x.Op == token.MUL && isX509Cert(fa.X.Type()) {
						st := fa.X.Type().Underlying().(*types.Pointer).Elem().Underlying().(*types.Struct)
						if c17Lists[st.Field(fa.Field).Name()] {
							list, name = x, st.Field(fa.Field).Name()
						}
					}
				case *ssa.Call:
					if c := x.Call.StaticCallee(); c != nil && strings.Contains(c.Name(), "GetParsedDNSNames") {
						list, name = x, "ParsedDNSNames"
					}
				}
				if list == nil || list.Referrers() == nil {
					continue
				}
				for _, r := range *list.Referrers() {
					switch u := r.(type) {
					case *ssa.IndexAddr:
						if bo, ok := u.Index.(*ssa.BinOp); ok && bo.Op == token.ADD {
							if phi, ok := bo.X.(*ssa.Phi); ok && isRangeIndex(phi) {
								ranged++
								continue
							}
						}
						other = append(other, fmt.Sprintf("%s: %s indexed by a value that is not a range index (%s)", funcDisplayName(fn), name, posStr(w.Fset, u.Pos())))
					case *ssa.Call:
						if bi, ok := u.Call.Value.(*ssa.Builtin); ok && (bi.Name() == "len" || bi.Name() == "cap") {
							measured++
							continue
						}
						callee := "dynamic call"
						if c := u.Call.StaticCallee(); c != nil {
							callee = c.String()
						} else if bi, ok := u.Call.Value.(*ssa.Builtin); ok {
							callee = "builtin " + bi.Name()
						}
						other = append(other, fmt.Sprintf("%s: %s passed to %s", funcDisplayName(fn), name, callee))
					case *ssa.BinOp:
						measured++ // comparison with nil
					case *ssa.DebugRef:
					default:
						other = append(other, fmt.Sprintf("%s: %s used by %T", funcDisplayName(fn), name, r))
					}
				}
			}
		}
	}
	return
}

// onlyRanged: the value is used only as the operand of range loops (indexed by a range index) and len.
func onlyRanged(v ssa.Value) bool {
	if v.Referrers() == nil {
		return false
	}
	for _, r := range *v.Referrers() {
		switch u := r.(type) {
		case *ssa.IndexAddr:
			bo, ok := u.Index.(*ssa.BinOp)
			if !ok || bo.Op != token.ADD {
				return false
			}
			if phi, ok := bo.X.(*ssa.Phi); !ok || !isRangeIndex(phi) {
				return false
			}
		case *ssa.Call:
			if bi, ok := u.Call.Value.(*ssa.Builtin); !ok || bi.Name() != "len" {
				return false
			}
		case *ssa.DebugRef:
		default:
			return false
		}
	}
	return true
}
