package main

// Package invariants: facts about package-level tables that the package initialiser establishes
// and nothing changes afterwards.
//
//   //@ pkginv rnNonNil() by init@ip.go          (in the package's contract file)
//   //@ pkginv tldWF() by census:tld
//
// A unit that runs lint code from the outside (the schematic sweep of every registered lint) may
// assume them at entry; in exchange the check carries, once per run,
//   <P>/pkginv:<name>/established   the establisher is verified under the same property:
//        by <initialiser>   - its contract is claimed for the property and carries the invariant,
//                             verbatim, as an ensures clause (proved like any postcondition);
//        by census:<id>     - the table census of that name ran and passed;
//   <P>/pkginv:<name>/stable#<global>   census over the SSA of the whole module: outside the
//        package's initialisers the global is only loaded, and what is loaded is only measured,
//        ranged over, indexed for reading, looked up, or (element pointers) compared, read
//        through, or handed to an external whose assumed contract does not assign through that
//        parameter. No store, no MapUpdate, no re-slicing, no escape into other calls.
// The back end of `stable` is the census (syntactic); it is never counted as solver-discharged.

import (
	"fmt"
	"go/ast"
	"go/parser"
	"go/token"
	"go/types"
	"sort"
	"strings"

	"golang.org/x/tools/go/ssa"
)

// pkgInvsFor: the package invariants a sweep under `prop` may assume.
func (w *World) pkgInvsFor(prop string) []*PkgInv {
	var out []*PkgInv
	for _, pi := range w.CS.PkgInvs {
		if len(pi.Props) == 0 || hasProp(pi.Props, prop) {
			out = append(out, pi)
		}
	}
	return out
}

// assumePkgInvs emits the invariants as assumptions over heap h.
func (u *Unit) assumePkgInvs(h *Heap, prop string) {
	for _, pi := range u.W.pkgInvsFor(prop) {
		env := &SpecEnv{u: u, pkg: u.W.pkgByPath(pi.Pkg), vars: map[string]Val{}, heap: h, oldHeap: h}
		b, err := env.evalBool(pi.Text)
		if err != nil {
			// an invariant that no longer fits the source is not assumed (fewer assumptions: sound);
			// whatever needed it fails on its own
			u.softFail("%s:%d: pkginv %s: %v", pi.File, pi.Line, pi.Name, err)
			continue
		}
		u.emit("(assert " + b + ")")
		u.note("package invariant " + pi.Name + " assumed at entry (established by " + pi.By + ", stable by the read-only census; obligations pkginv:" + pi.Name + ")")
	}
}

// specGlobals: the package-level variables a specification expression mentions, following spec
// functions with bodies.
func (w *World) specGlobals(text, pkgPath string, seen map[string]bool, out map[*types.Var]bool) {
	x, err := parser.ParseExpr(text)
	if err != nil {
		return
	}
	tp := w.pkgByPath(pkgPath)
	ast.Inspect(x, func(n ast.Node) bool {
		id, ok := n.(*ast.Ident)
		if !ok {
			return true
		}
		if sp := w.CS.Specs[pkgPath+"::"+id.Name]; sp != nil && sp.Body != "" && !seen[sp.Name] {
			seen[sp.Name] = true
			// parameters shadow globals of the same name
			before := map[*types.Var]bool{}
			w.specGlobals(sp.Body, pkgPath, seen, before)
			for v := range before {
				shadow := false
				for _, p := range sp.Params {
					if p.Name == v.Name() {
						shadow = true
					}
				}
				if !shadow {
					out[v] = true
				}
			}
			return true
		}
		if tp != nil {
			if v, ok := tp.Scope().Lookup(id.Name).(*types.Var); ok {
				out[v] = true
			}
		}
		return true
	})
}

// pkgInvObligations: established + stable obligations of every package invariant assumed under prop.
func pkgInvObligations(w *World, r *Report, prop string) []*Obligation {
	var out []*Obligation
	for _, pi := range w.pkgInvsFor(prop) {
		name := strings.TrimSuffix(pi.Name, "()")
		src := fmt.Sprintf("%s:%d", pi.File, pi.Line)
		// established
		okE, why := false, ""
		switch {
		case strings.HasPrefix(pi.By, "census:"):
			id := strings.TrimPrefix(pi.By, "census:")
			eng := pkgInvCensus[id]
			if eng == nil {
				why = "unknown census " + id
				break
			}
			okE = true
			for _, o := range eng(w, r) {
				if o.Status != "proved" {
					okE = false
					why += o.Name + ": " + o.Output + "; "
				}
			}
		default:
			c := w.CS.ByKey[pi.Pkg+"::"+pi.By]
			if c == nil {
				why = "no contract for " + pi.By
				break
			}
			if !c.HasProp(prop) {
				why = "the contract of " + pi.By + " is not claimed for " + prop
				break
			}
			for _, cl := range c.ClausesOf("ensures") {
				if cl.ForProp(c, prop) && strings.Join(strings.Fields(cl.Text), " ") == strings.Join(strings.Fields(pi.Text), " ") {
					okE = true
				}
			}
			if !okE {
				why = "the contract of " + pi.By + " has no ensures clause `" + pi.Text + "` for " + prop
			}
		}
		out = append(out, censusObl(prop, fmt.Sprintf("%s/pkginv:%s/established#1", prop, name), "pkginv", src, "package invariant "+pi.Text+" is established by "+pi.By+" (verified under this property)", okE, why))
		// stable
		gs := map[*types.Var]bool{}
		w.specGlobals(pi.Text, pi.Pkg, map[string]bool{}, gs)
		var names []string
		byName := map[string]*types.Var{}
		for g := range gs {
			names = append(names, g.Name())
			byName[g.Name()] = g
		}
		sort.Strings(names)
		if len(names) == 0 {
			out = append(out, censusObl(prop, fmt.Sprintf("%s/pkginv:%s/stable#none", prop, name), "pkginv", src, "the invariant mentions package-level state", false, "no package-level variable found in "+pi.Text))
		}
		for _, n := range names {
			bad := w.globalReadOnly(byName[n])
			out = append(out, censusObl(prop, fmt.Sprintf("%s/pkginv:%s/stable#%s", prop, name, n), "pkginv", src,
				"outside package initialisation "+byName[n].Pkg().Name()+"."+n+" is only read (loaded, measured, ranged over, indexed or looked up for reading; element pointers only compared, read through, or passed to externals that do not assign through them)", len(bad) == 0, strings.Join(bad, "; ")))
		}
	}
	return out
}

// pkgInvCensus: named censuses that establish a package invariant (the property-specific census
// engines, run under the assuming property).
var pkgInvCensus = map[string]func(w *World, r *Report) []*Obligation{}

// globalReadOnly returns the uses of g (outside its package's initialisers) that are not reads.
func (w *World) globalReadOnly(g *types.Var) []string {
	if w.roCache == nil {
		w.roCache = map[*types.Var][]string{}
	}
	if v, ok := w.roCache[g]; ok {
		return v
	}
	var bad []string
	sp := w.ssaPkg(g.Pkg().Path())
	var sg *ssa.Global
	if sp != nil {
		sg, _ = sp.Members[g.Name()].(*ssa.Global)
	}
	if sg == nil {
		bad = []string{"no ssa global for " + g.Name()}
		w.roCache[g] = bad
		return bad
	}
	isInit := func(fn *ssa.Function) bool {
		for p := fn; p != nil; p = p.Parent() {
			if p.Pkg == sp && (p.Name() == "init" || strings.HasPrefix(p.Name(), "init#")) {
				return true
			}
		}
		return false
	}
	report := func(fn *ssa.Function, in ssa.Instruction, what string) {
		bad = append(bad, fmt.Sprintf("%s at %s: %s", fn.String(), posStr(w.Fset, in.Pos()), what))
	}
	var readOnlyValue func(fn *ssa.Function, v ssa.Value, depth int)
	// elemPointer: v is a pointer loaded out of the table (or the global's own pointer value)
	var elemPointer func(fn *ssa.Function, v ssa.Value, depth int)
	elemPointer = func(fn *ssa.Function, v ssa.Value, depth int) {
		refs := v.Referrers()
		if refs == nil || depth > 6 {
			return
		}
		for _, r := range *refs {
			switch x := r.(type) {
			case *ssa.DebugRef:
			case *ssa.BinOp: // comparison
			case *ssa.FieldAddr:
				// reading through the pointer: the field address may only be loaded from
				for _, r2 := range *x.Referrers() {
					switch y := r2.(type) {
					case *ssa.UnOp:
						if y.Op != token.MUL {
							report(fn, y, "address of a field of a table element is used")
						}
					case *ssa.DebugRef:
					default:
						report(fn, r2, "field of a table element is not merely read")
					}
				}
			case *ssa.UnOp:
				if x.Op != token.MUL {
					report(fn, x, "table element pointer used by "+x.Op.String())
				}
			case *ssa.Call:
				callee := x.Call.StaticCallee()
				if callee == nil || callee.Blocks != nil {
					report(fn, x, "table element passed to a call that is not a known external")
					continue
				}
				ext := w.externContract(callee)
				if ext == nil {
					report(fn, x, "table element passed to "+callee.String()+", an external without assumed contract")
					continue
				}
				// which parameter?
				params := callee.Signature.Params()
				var pnames []string
				if recv := callee.Signature.Recv(); recv != nil {
					pnames = append(pnames, recv.Name())
				}
				for i := 0; i < params.Len(); i++ {
					pnames = append(pnames, params.At(i).Name())
				}
				for i, a := range x.Call.Args {
					if a != v || i >= len(pnames) {
						continue
					}
					if ext.Flags["pure"] {
						continue
					}
					for _, cl := range ext.ClausesOf("assigns") {
						for _, item := range splitTop(cl.Text, ',') {
							item = strings.TrimSpace(item)
							if item == "\\fresh" || item == "\\nothing" {
								continue
							}
							if strings.Contains(item, pnames[i]) || item == "\\all" {
								report(fn, x, "table element passed to "+callee.String()+" as `"+pnames[i]+"`, which its contract assigns through")
							}
						}
					}
					if len(ext.ClausesOf("assigns")) == 0 {
						report(fn, x, "table element passed to "+callee.String()+", whose assumed contract has no frame")
					}
				}
			case *ssa.Phi:
				elemPointer(fn, x, depth+1)
			default:
				report(fn, r, "table element used by "+fmt.Sprintf("%T", r))
			}
		}
	}
	readOnlyValue = func(fn *ssa.Function, v ssa.Value, depth int) {
		refs := v.Referrers()
		if refs == nil || depth > 6 {
			return
		}
		isPtr := func(t types.Type) bool {
			switch t.Underlying().(type) {
			case *types.Pointer:
				return true
			}
			return false
		}
		for _, r := range *refs {
			switch x := r.(type) {
			case *ssa.DebugRef:
			case *ssa.Call:
				if b, ok := x.Call.Value.(*ssa.Builtin); ok && (b.Name() == "len" || b.Name() == "cap") {
					continue
				}
				if isPtr(v.Type()) {
					// the global itself is a pointer (e.g. *big.Int): treat like an element
					elemPointer(fn, v, depth)
					return
				}
				if w.calleeWritesNothingOld(x) {
					continue
				}
				report(fn, x, "table passed to a call")
			case *ssa.Range:
				// map / string iteration: Next yields (ok, key, value) copies
				for _, r2 := range *x.Referrers() {
					if nx, ok := r2.(*ssa.Next); ok {
						for _, r3 := range *nx.Referrers() {
							if ex, ok := r3.(*ssa.Extract); ok && ex.Index == 2 && isPtr(ex.Type()) {
								elemPointer(fn, ex, depth+1)
							}
						}
					}
				}
			case *ssa.Lookup:
				if isPtr(x.Type()) {
					elemPointer(fn, x, depth+1)
				}
			case *ssa.Index:
				if isPtr(x.Type()) {
					elemPointer(fn, x, depth+1)
				}
			case *ssa.IndexAddr:
				for _, r2 := range *x.Referrers() {
					switch y := r2.(type) {
					case *ssa.UnOp:
						if y.Op != token.MUL {
							report(fn, y, "element address used")
						} else if isPtr(y.Type()) {
							elemPointer(fn, y, depth+1)
						}
					case *ssa.DebugRef:
					case *ssa.FieldAddr:
						for _, r3 := range *y.Referrers() {
							if ld, ok := r3.(*ssa.UnOp); !ok || ld.Op != token.MUL {
								if _, dbg := r3.(*ssa.DebugRef); !dbg {
									report(fn, r3, "field of a table element is not merely read")
								}
							}
						}
					default:
						report(fn, r2, "element address is not merely loaded from")
					}
				}
			case *ssa.BinOp: // comparison with nil
			case *ssa.UnOp, *ssa.FieldAddr:
				if isPtr(v.Type()) {
					elemPointer(fn, v, depth)
					return
				}
				report(fn, r, "table used by "+fmt.Sprintf("%T", r))
			case *ssa.Phi:
				readOnlyValue(fn, x, depth+1)
			default:
				report(fn, r, "table used by "+fmt.Sprintf("%T", r))
			}
		}
	}
	for fn := range allFunctions(w) {
		if fn.Blocks == nil || isInit(fn) {
			continue
		}
		for _, b := range fn.Blocks {
			for _, in := range b.Instrs {
				uses := false
				for _, op := range in.Operands(nil) {
					if op != nil && *op == ssa.Value(sg) {
						uses = true
					}
				}
				if !uses {
					continue
				}
				if _, dbg := in.(*ssa.DebugRef); dbg {
					continue
				}
				ld, ok := in.(*ssa.UnOp)
				if !ok || ld.Op != token.MUL {
					if w.addrOnlyDereferenced(fn, in, sg, func(f2 *ssa.Function, v ssa.Value) { readOnlyValue(f2, v, 0) }) {
						continue
					}
					report(fn, in, "the variable is written or its address is taken")
					continue
				}
				readOnlyValue(fn, ld, 0)
			}
		}
	}
	sort.Strings(bad)
	w.roCache[g] = bad
	return bad
}


// calleeWritesNothingOld: the callee carries a contract whose frame rules out writes to memory
// that existed before the call - `pure`, or an assigns clause naming only \fresh / \nothing. For a
// module function the frame is a proved obligation of its own unit; for an external it is the
// assumed contract.
func (w *World) calleeWritesNothingOld(call *ssa.Call) bool {
	callee := call.Call.StaticCallee()
	if callee == nil {
		return false
	}
	var c *Contract
	if callee.Blocks != nil {
		c = w.funcContract(callee)
	} else {
		c = w.externContract(callee)
	}
	if c == nil {
		return false
	}
	if c.Flags["pure"] {
		return true
	}
	as := c.ClausesOf("assigns")
	if len(as) == 0 {
		return false
	}
	for _, cl := range as {
		for _, item := range splitTop(cl.Text, ',') {
			if it := strings.TrimSpace(item); it != `\fresh` && it != `\nothing` && it != "" {
				return false
			}
		}
	}
	return true
}

// addrOnlyDereferenced: instruction `in` of fn uses the ADDRESS of the global sg other than as the
// operand of a load. Two idioms keep the variable read-only and are accepted:
//   return &G          - and every call of this function, anywhere in the module, uses its result
//                        only as the operand of a load (`*l.getStatementOid()`);
//   list[i] = &G       - list is a local make([]*T, n) whose other uses are element stores of such
//                        addresses, len, and ranging / indexing whose loaded pointers are only loaded
//                        through.
// Every value loaded through such a pointer is handed to `onLoad` (it is a read of the variable).
func (w *World) addrOnlyDereferenced(fn *ssa.Function, in ssa.Instruction, sg *ssa.Global, onLoad func(*ssa.Function, ssa.Value)) bool {
	derefOnly := func(f2 *ssa.Function, p ssa.Value) bool {
		refs := p.Referrers()
		if refs == nil {
			return true
		}
		for _, r := range *refs {
			switch x := r.(type) {
			case *ssa.DebugRef:
			case *ssa.UnOp:
				if x.Op != token.MUL {
					return false
				}
				onLoad(f2, x)
			default:
				return false
			}
		}
		return true
	}
	switch x := in.(type) {
	case *ssa.Return:
		// all static call sites of fn
		ok := true
		found := false
		for g := range allFunctions(w) {
			for _, b := range g.Blocks {
				for _, i2 := range b.Instrs {
					c, isCall := i2.(*ssa.Call)
					if !isCall || c.Call.StaticCallee() != fn {
						continue
					}
					found = true
					if !derefOnly(g, c) {
						ok = false
					}
				}
			}
		}
		// the function must not be reachable as a value (method value / interface dispatch would hide call sites)
		if fn.Referrers() != nil && len(*fn.Referrers()) > 0 {
			return false
		}
		_ = found
		return ok && fn.Signature.Results().Len() == 1
	case *ssa.Store:
		if x.Val != ssa.Value(sg) {
			return false
		}
		ia, isIA := x.Addr.(*ssa.IndexAddr)
		if !isIA {
			return false
		}
		// make([]*T, n): a MakeSlice, or (constant n) a fresh array sliced once
		var ms ssa.Value
		switch b := ia.X.(type) {
		case *ssa.MakeSlice:
			ms = b
		case *ssa.Slice:
			al, isAl := b.X.(*ssa.Alloc)
			if !isAl || b.Low != nil || b.Max != nil {
				return false
			}
			if b.High != nil {
				if _, isC := b.High.(*ssa.Const); !isC {
					return false
				}
			}
			for _, r := range *al.Referrers() {
				if r != ssa.Instruction(b) {
					if _, dbg := r.(*ssa.DebugRef); !dbg {
						return false
					}
				}
			}
			ms = b
		default:
			return false
		}
		for _, r := range *ms.Referrers() {
			switch y := r.(type) {
			case *ssa.DebugRef:
			case *ssa.Call:
				if b, isB := y.Call.Value.(*ssa.Builtin); !isB || (b.Name() != "len" && b.Name() != "cap") {
					return false
				}
			case *ssa.IndexAddr:
				for _, r2 := range *y.Referrers() {
					switch z := r2.(type) {
					case *ssa.DebugRef:
					case *ssa.Store:
						if z.Addr != ssa.Value(y) {
							return false
						}
						if _, isG := z.Val.(*ssa.Global); !isG {
							return false
						}
					case *ssa.UnOp:
						if z.Op != token.MUL || !derefOnly(fn, z) {
							return false
						}
					default:
						return false
					}
				}
			default:
				return false
			}
		}
		return true
	}
	return false
}
