package main

import (
	"bytes"
	"context"
	"fmt"
	"os"
	"os/exec"
	"path/filepath"
	"strings"
	"sync"
	"time"
)

type solverSpec struct {
	name string
	args func(file string, timeoutS int) []string
}

var solvers = []solverSpec{
	{"z3-new", func(f string, t int) []string { return []string{"z3-new", "-smt2", fmt.Sprintf("-T:%d", t), f} }},
	{"z3", func(f string, t int) []string { return []string{"z3", "-smt2", fmt.Sprintf("-T:%d", t), f} }},
	{"cvc5", func(f string, t int) []string {
		return []string{"cvc5", "--lang=smt2", "--produce-models", fmt.Sprintf("--tlimit=%d", t*1000), f}
	}},
}

// Query builds the SMT-LIB text for an obligation.
func (o *Obligation) Query(forCVC5 bool) string {
	u := o.Unit
	var sb strings.Builder
	if forCVC5 {
		sb.WriteString("(set-option :produce-models true)\n(set-logic ALL)\n")
	}
	u.D.Print(&sb)
	for _, l := range u.script[:o.Pos] {
		sb.WriteString(l)
		sb.WriteByte('\n')
	}
	if o.Cover {
		sb.WriteString("(assert " + and(o.Guard, o.Goal) + ")\n")
	} else {
		sb.WriteString("(assert (not " + implies(o.Guard, o.Goal) + "))\n")
	}
	sb.WriteString("(check-sat)\n")
	if len(u.modelTerms) > 0 {
		sb.WriteString("(get-value (" + strings.Join(u.modelTerms, " ") + "))\n")
	}
	return sb.String()
}

type solveResult struct {
	verdict string // sat unsat unknown
	solver  string
	out     string
	secs    float64
}

func runSolver(ctx context.Context, s solverSpec, file string, timeoutS int) solveResult {
	t0 := time.Now()
	a := s.args(file, timeoutS)
	cmd := exec.CommandContext(ctx, a[0], a[1:]...)
	var out bytes.Buffer
	cmd.Stdout = &out
	cmd.Stderr = &out
	_ = cmd.Run()
	txt := out.String()
	first := ""
	for _, ln := range strings.Split(txt, "\n") {
		ln = strings.TrimSpace(ln)
		if ln == "" || strings.HasPrefix(ln, "WARNING") {
			continue
		}
		first = ln
		break
	}
	v := "unknown"
	switch first {
	case "sat", "unsat":
		v = first
	}
	return solveResult{verdict: v, solver: s.name, out: txt, secs: time.Since(t0).Seconds()}
}

// Solve races the solvers on one obligation. In confirm mode every solver's
// verdict is collected (thorough tier: two solver families must agree).
func (o *Obligation) Solve(dir string, timeoutS int, confirm bool) {
	if o.Solver == "census" && o.Status != "" {
		return // decided syntactically by the generator
	}
	if o.Cover && timeoutS > 3 {
		// vacuity guards: "sat" is usually found at once; an unknown is tolerated
		timeoutS = 3
	}
	q := o.Query(false)
	qc := o.Query(true)
	o.SMTSize = len(q)
	base := filepath.Join(dir, clip(o.Name, 150))
	f1 := base + ".smt2"
	f2 := base + ".cvc5.smt2"
	os.WriteFile(f1, []byte(q), 0o644)
	os.WriteFile(f2, []byte(qc), 0o644)
	ctx, cancel := context.WithTimeout(context.Background(), time.Duration(timeoutS+2)*time.Second)
	defer cancel()
	ch := make(chan solveResult, len(solvers))
	for _, s := range solvers {
		s := s
		file := f1
		if s.name == "cvc5" {
			file = f2
		}
		go func() { ch <- runSolver(ctx, s, file, timeoutS) }()
	}
	t0 := time.Now()
	var results []solveResult
	var win *solveResult
	for range solvers {
		r := <-ch
		results = append(results, r)
		if r.verdict != "unknown" && win == nil {
			rr := r
			win = &rr
			if !confirm {
				cancel()
				break
			}
		}
	}
	o.Time = time.Since(t0).Seconds()
	if win == nil {
		o.Status = "unknown"
		var outs []string
		for _, r := range results {
			outs = append(outs, r.solver+": "+clipText(strings.TrimSpace(r.out)))
		}
		o.Output = strings.Join(outs, " | ")
		return
	}
	o.Solver = win.solver
	o.Output = win.out
	want := "unsat"
	if o.Cover {
		want = "sat"
	}
	if win.verdict == want {
		o.Status = "proved"
	} else {
		o.Status = "refuted"
		o.Model = win.out
	}
	if confirm {
		fams := map[string]string{}
		for _, r := range results {
			if r.verdict == "unknown" {
				continue
			}
			fam := "z3"
			if r.solver == "cvc5" {
				fam = "cvc5"
			}
			if old, ok := fams[fam]; ok && old != r.verdict {
				o.Status = "error"
				o.Output = "solver disagreement within family " + fam
			}
			fams[fam] = r.verdict
		}
		if len(fams) == 2 && fams["z3"] != fams["cvc5"] {
			o.Status = "error"
			o.Output = "solver families disagree: z3=" + fams["z3"] + " cvc5=" + fams["cvc5"]
		}
		if len(fams) < 2 {
			o.Note += " [single-solver]"
		}
	}
	if o.Status == "proved" {
		os.Remove(f1)
		os.Remove(f2)
	}
}

// SolveAll runs obligations in parallel.
func SolveAll(obls []*Obligation, dir string, timeoutS int, confirm bool, par int) {
	os.MkdirAll(dir, 0o755)
	var wg sync.WaitGroup
	sem := make(chan struct{}, par)
	// When a change breaks something many obligations share (a table initialiser with hundreds of
	// postconditions), each of them runs into the time limit. After a few undecided obligations in
	// the same group (function and kind) the rest of that group get a short limit: their verdict
	// (undecided) is the same, the check stays within minutes.
	var mu sync.Mutex
	unknowns := map[string]int{}
	for _, o := range obls {
		wg.Add(1)
		sem <- struct{}{}
		go func(o *Obligation) {
			defer wg.Done()
			defer func() { <-sem }()
			g := group(o.Name)
			t := timeoutS
			mu.Lock()
			if unknowns[g] >= 6 && t > 2 && !confirm {
				t = 2
			}
			mu.Unlock()
			o.Solve(dir, t, confirm)
			if o.Status == "unknown" {
				mu.Lock()
				unknowns[g]++
				mu.Unlock()
				if t != timeoutS {
					o.Note += fmt.Sprintf(" [short time limit %ds: %d obligations of this group were already undecided at %ds]", t, 6, timeoutS)
				}
			}
		}(o)
	}
	wg.Wait()
}
