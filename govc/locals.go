package main

// Renamed locals. Loop invariants and in-body assertions name local variables of the function
// under contract (`configurables`, `filteredRegistry`, `list`). Renaming a local is a harmless
// edit, but it would leave the contract with an unknown identifier. To keep such an edit from
// raising an alarm, `govc ledger` records, for every function under contract, the list of its
// local variables in declaration order with their types (/verif/ledger/locals.json). When a name
// used by a contract no longer resolves, and the function today declares the same number of locals
// with the same types in the same order, the variable now standing at the old name's position is
// used instead (reported as a note in the evidence). Any other change of shape is not healed: the
// clause fails as a contract error, as before.

import (
	"encoding/json"
	"go/ast"
	"go/types"
	"os"
	"path/filepath"
	"sort"

	"golang.org/x/tools/go/ssa"
)

type localVar struct {
	Name string `json:"name"`
	Type string `json:"type"`
}

// localVarList: parameters, named results and the variables declared in the body of fn, in source order.
func (w *World) localVarList(fn *ssa.Function) []localVar {
	if fn == nil || fn.Syntax() == nil {
		return nil
	}
	var body *ast.BlockStmt
	switch n := fn.Syntax().(type) {
	case *ast.FuncDecl:
		body = n.Body
	case *ast.FuncLit:
		body = n.Body
	}
	if body == nil {
		return nil
	}
	var info *types.Info
	for _, p := range w.Pkgs {
		if fn.Pkg != nil && p.Types == fn.Pkg.Pkg {
			info = p.TypesInfo
		}
	}
	if info == nil {
		return nil
	}
	var out []localVar
	// parameters and named results first (renaming one is as harmless as renaming a local)
	for _, p := range fn.Params {
		out = append(out, localVar{Name: p.Name(), Type: "param " + types.TypeString(p.Type(), nil)})
	}
	if res := fn.Signature.Results(); res != nil {
		for i := 0; i < res.Len(); i++ {
			if res.At(i).Name() != "" {
				out = append(out, localVar{Name: res.At(i).Name(), Type: "result " + types.TypeString(res.At(i).Type(), nil)})
			}
		}
	}
	ast.Inspect(body, func(n ast.Node) bool {
		if _, isLit := n.(*ast.FuncLit); isLit {
			return false // closures have their own list
		}
		id, ok := n.(*ast.Ident)
		if !ok || id.Name == "_" {
			return true
		}
		if v, ok := info.Defs[id].(*types.Var); ok && !v.IsField() {
			out = append(out, localVar{Name: id.Name, Type: types.TypeString(v.Type(), nil)})
		}
		return true
	})
	return out
}

func localsFile(verifDir string) string { return filepath.Join(verifDir, "ledger", "locals.json") }

// recordLocals merges the local-variable lists of the given functions into locals.json.
func (w *World) recordLocals(fns []*ssa.Function) {
	all := map[string][]localVar{}
	if b, err := os.ReadFile(localsFile(w.VerifDir)); err == nil {
		json.Unmarshal(b, &all)
	}
	for _, fn := range fns {
		if l := w.localVarList(fn); len(l) > 0 {
			all[fn.String()] = l
		}
	}
	keys := make([]string, 0, len(all))
	for k := range all {
		keys = append(keys, k)
	}
	sort.Strings(keys)
	ordered := make(map[string][]localVar, len(all))
	for _, k := range keys {
		ordered[k] = all[k]
	}
	b, _ := json.MarshalIndent(ordered, "", " ")
	os.WriteFile(localsFile(w.VerifDir), b, 0o644)
}

// localAlias: the current name of the local that was called `name` when the ledger was written,
// or "" when the function's locals no longer have the recorded shape.
func (w *World) localAlias(fn *ssa.Function, name string) string {
	if fn == nil {
		return ""
	}
	if w.recLocals == nil {
		w.recLocals = map[string][]localVar{}
		if b, err := os.ReadFile(localsFile(w.VerifDir)); err == nil {
			json.Unmarshal(b, &w.recLocals)
		}
	}
	old := w.recLocals[fn.String()]
	cur := w.localVarList(fn)
	if len(old) == 0 || len(old) != len(cur) {
		return ""
	}
	for i := range old {
		if old[i].Type != cur[i].Type {
			return ""
		}
	}
	// the old name must have vanished from the function, and map to one position only
	alias := ""
	for i := range old {
		if cur[i].Name == name {
			return ""
		}
		if old[i].Name == name {
			if alias != "" && alias != cur[i].Name {
				return ""
			}
			alias = cur[i].Name
		}
	}
	return alias
}
