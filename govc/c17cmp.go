package main

// C17, comparators. A lint that sorts SAN or extension data with a hand-written comparator is
// order-independent only if the comparator is a strict weak order: with an inconsistent comparator
// the "sorted" result depends on the input order (seed C17d: case-insensitive equality mixed with
// case-sensitive ordering). For every comparator handed to slices.SortFunc / SortStableFunc /
// BinarySearchFunc (and every less function handed to sort.Slice / SliceStable that does not
// capture the slice) in lint-reachable code, the comparator's real body is executed symbolically on
// the argument pairs (a,b), (b,a), (b,c), (a,c) - externals as deterministic functions, strings.Compare
// as the total order scmp - and the order axioms become obligations:
//   antisymmetry   cmp(a,b) < 0  <=>  cmp(b,a) > 0,   cmp(a,b) = 0  <=>  cmp(b,a) = 0
//   transitivity   cmp(a,b) < 0 and cmp(b,c) < 0  =>  cmp(a,c) < 0
//   equivalence    cmp(a,b) = 0 and cmp(b,c) = 0  =>  cmp(a,c) = 0
//   compatibility  cmp(a,b) = 0 and cmp(b,c) < 0  =>  cmp(a,c) < 0   (and the mirrored form)
// The claimed obligation is tree-wide (C17/tree/comparators): a comparator added later is covered.

import (
	"fmt"
	"go/types"
	"sort"
	"strings"

	"golang.org/x/tools/go/ssa"
)

func init() {
	extraEngines["C17"] = append(extraEngines["C17"], c17Comparators)
}

func c17Comparators(w *World, r *Report) []*Obligation {
	reach := w.lintReachable()
	type site struct {
		caller *ssa.Function
		cmp    *ssa.Function
		less   bool // func(a, b T) bool instead of func(a, b T) int
		pos    string
		why    string // not analysable
	}
	var sites []site
	for fn := range reach {
		for _, b := range fn.Blocks {
			for _, in := range b.Instrs {
				call, ok := in.(*ssa.Call)
				if !ok {
					continue
				}
				callee := call.Call.StaticCallee()
				if callee == nil {
					continue
				}
				name := callee.String()
				if i := strings.Index(name, "["); i >= 0 {
					name = name[:i] // generic instantiation
				}
				argIdx, less := -1, false
				switch name {
				case "slices.SortFunc", "slices.SortStableFunc", "slices.IsSortedFunc", "slices.MaxFunc", "slices.MinFunc":
					argIdx = 1
				case "slices.BinarySearchFunc":
					argIdx = 2
				case "sort.Slice", "sort.SliceStable":
					argIdx, less = 1, true
				}
				if argIdx < 0 || argIdx >= len(call.Call.Args) {
					continue
				}
				s := site{caller: fn, less: less, pos: posStr(w.Fset, call.Pos())}
				switch cv := call.Call.Args[argIdx].(type) {
				case *ssa.Function:
					s.cmp = cv
				case *ssa.MakeClosure:
					if len(cv.Bindings) == 0 {
						s.cmp, _ = cv.Fn.(*ssa.Function)
					} else {
						s.why = "the comparator is a closure over local state (index-based less function): not analysed"
					}
				case *ssa.ChangeType:
					if f2, ok := cv.X.(*ssa.Function); ok {
						s.cmp = f2
					}
				}
				if s.cmp == nil && s.why == "" {
					s.why = "the comparator is not a statically known function"
				}
				if s.cmp != nil && (s.cmp.Blocks == nil || len(s.cmp.Params) != 2 || !inlinableSweep(s.cmp) && !inlinable(s.cmp)) {
					s.why = "the comparator's body is outside the analysable subset"
				}
				sites = append(sites, s)
			}
		}
	}
	sort.Slice(sites, func(i, j int) bool { return sites[i].pos < sites[j].pos })
	var out []*Obligation
	var bad []string
	done := map[*ssa.Function]bool{}
	for _, s := range sites {
		if s.why != "" {
			bad = append(bad, fmt.Sprintf("%s (%s): %s", funcDisplayName(s.caller), s.pos, s.why))
			continue
		}
		if done[s.cmp] {
			continue
		}
		done[s.cmp] = true
		obls := w.comparatorObligations(s.cmp, s.less, s.pos)
		SolveAll(obls, r.QDir, r.Timeout, r.Tier == "thorough", 4)
		for _, o := range obls {
			out = append(out, o)
			if o.Status != "proved" {
				bad = append(bad, fmt.Sprintf("%s used at %s: %s is %s", funcDisplayName(s.cmp), s.pos, o.Note, o.Status))
			}
		}
		if len(obls) > 0 {
			r.Units = append(r.Units, obls[0].Unit)
		}
	}
	all := censusObl("C17", "C17/tree/comparators#1", "census", "", fmt.Sprintf("every comparator handed to a sort in lint-reachable code is a strict weak order (%d sort sites with a comparator, %d comparators checked by the solver)", len(sites), len(done)), len(bad) == 0, strings.Join(bad, " | "))
	out = append(out, all)
	r.Extra["comparator_sort_sites"] = len(sites)
	return out
}

// comparatorObligations executes cmp on (a,b), (b,a), (b,c), (a,c) and states the order axioms.
func (w *World) comparatorObligations(cmp *ssa.Function, less bool, pos string) (obls []*Obligation) {
	name := funcDisplayName(cmp)
	u := NewUnit(w, name, "C17")
	u.sweep = true
	defer func() {
		if rec := recover(); rec != nil {
			obls = []*Obligation{{Name: "C17/cmp:" + name + "/unsupported#1", Prop: "C17", Kind: "unsupported", Status: "unknown", Note: "symbolic execution of the comparator failed: " + clipText(fmt.Sprint(rec)), Src: pos}}
		}
	}()
	heap := u.newHeap(&Link{kind: "entry"})
	u.scalar("$top", "Int")
	u.top0 = u.hget(heap, "$top")
	t := cmp.Params[0].Type()
	mk := func(n string) Val {
		x := u.fresh("cmp."+n, u.D.SortOf(t))
		u.assumeRange(x, t)
		u.wellFormedLoaded(heap, x, t)
		return Val{T: x, Typ: t}
	}
	a, b, c := mk("a"), mk("b"), mk("c")
	run := func(x, y Val, tag string) string {
		g := u.newFrame(cmp, nil, 1)
		g.fname = name
		g.vals[cmp.Params[0]] = x
		g.vals[cmp.Params[1]] = y
		g.run(heap, "true")
		if len(g.retConds) == 0 {
			panic("comparator has no return path")
		}
		term := g.retVals[len(g.retVals)-1][0].T
		for i := len(g.retVals) - 2; i >= 0; i-- {
			term = ite(g.retConds[i], g.retVals[i][0].T, term)
		}
		srt := "Int"
		if less {
			srt = "Bool"
		}
		return u.define("cmp."+tag, srt, term)
	}
	ab, ba, bc, ac := run(a, b, "ab"), run(b, a, "ba"), run(b, c, "bc"), run(a, c, "ac")
	lt := func(x string) string { return "(< " + x + " 0)" }
	gt := func(x string) string { return "(> " + x + " 0)" }
	eq0 := func(x string) string { return "(= " + x + " 0)" }
	add := func(kind, goal, note string) {
		o := u.oblige(kind, name, "true", goal, pos, note)
		o.Name = fmt.Sprintf("C17/cmp:%s/%s#1", name, kind)
		o.Func = "cmp:" + name
		obls = append(obls, o)
	}
	if less {
		// strict weak order in terms of less: irreflexive on equal arguments is not expressible without
		// a == b; asymmetry, transitivity, transitivity of incomparability
		eqv := func(x, y string) string { return and(not(x), not(y)) }
		cb := run(c, b, "cb")
		ca := run(c, a, "ca")
		add("asymmetry", implies(ab, not(ba)), "less(a,b) excludes less(b,a)")
		add("transitivity", implies(and(ab, bc), ac), "less is transitive")
		add("equivalence", implies(and(eqv(ab, ba), eqv(bc, cb)), eqv(ac, ca)), "incomparability is transitive")
		return obls
	}
	add("antisymmetry", and(eq(lt(ab), gt(ba)), eq(eq0(ab), eq0(ba))), "cmp(a,b) and cmp(b,a) have opposite signs")
	add("transitivity", implies(and(lt(ab), lt(bc)), lt(ac)), "cmp is transitive")
	add("equivalence", implies(and(eq0(ab), eq0(bc)), eq0(ac)), "cmp(.,.) = 0 is transitive")
	add("compatibility", and(implies(and(eq0(ab), lt(bc)), lt(ac)), implies(and(lt(ab), eq0(bc)), lt(ac))), "elements the comparator calls equal are ordered alike against a third")
	return obls
}

var _ = types.Typ

// Replay: the order axioms evaluated on the real comparator over a dictionary of strings (case
// variants, prefixes, the empty string). Only for package-level comparators of two strings.
func init() {
	replayHandlers["C17/cmp:"] = replayC17Comparator
	modelFreeReplay["C17/cmp:"] = true
}

func replayC17Comparator(rp *Replayer, o *Obligation) (string, string, bool) {
	name := strings.TrimPrefix(group(o.Name), "C17/cmp:")
	if i := strings.LastIndex(name, "/"); i >= 0 {
		name = name[:i]
	}
	var fn *ssa.Function
	for f := range allFunctions(rp.W) {
		if funcDisplayName(f) == name {
			fn = f
		}
	}
	if fn == nil || fn.Parent() != nil || fn.Signature.Recv() != nil || fn.Pkg == nil || len(fn.Params) != 2 || fn.Signature.Results().Len() != 1 {
		return "", "", false
	}
	if b, ok := fn.Params[0].Type().Underlying().(*types.Basic); !ok || b.Kind() != types.String {
		return "", "", false
	}
	if b, ok := fn.Signature.Results().At(0).Type().Underlying().(*types.Basic); !ok || b.Kind() != types.Int {
		return "", "", false
	}
	test := fmt.Sprintf(`package %s

import "testing"

// generated by govc for obligation %s: the order axioms on the real comparator over a dictionary
func TestGovcReplay(t *testing.T) {
	dict := []string{"", "a", "A", "b", "B", "aa", "Aa", "aA", "AA", "ab", "aB", "Ab", "z", "Z", "www.example.com", "WWW.example.com", "Www.Example.Com", "api.example.com", "API.example.com", "mail.example.com", "example.com", "EXAMPLE.com", "xn--a", "XN--A", "0", "_", "-"}
	sign := func(x int) int {
		switch {
		case x < 0:
			return -1
		case x > 0:
			return 1
		}
		return 0
	}
	for _, a := range dict {
		for _, b := range dict {
			ab, ba := sign(%s(a, b)), sign(%s(b, a))
			if ab != -ba {
				t.Fatalf("cmp(%%q,%%q)=%%d but cmp(%%q,%%q)=%%d", a, b, ab, b, a, ba)
			}
			for _, c := range dict {
				bc, ac := sign(%s(b, c)), sign(%s(a, c))
				if ab < 0 && bc < 0 && !(ac < 0) {
					t.Fatalf("not transitive: %%q < %%q < %%q but cmp(%%q,%%q)=%%d", a, b, c, a, c, ac)
				}
				if ab == 0 && bc == 0 && ac != 0 {
					t.Fatalf("equivalence not transitive: %%q ~ %%q ~ %%q but cmp(%%q,%%q)=%%d", a, b, c, a, c, ac)
				}
				if (ab == 0 && bc < 0 || ab < 0 && bc == 0) && !(ac < 0) {
					t.Fatalf("inconsistent: cmp(%%q,%%q)=%%d, cmp(%%q,%%q)=%%d but cmp(%%q,%%q)=%%d", a, b, ab, b, c, bc, a, c, ac)
				}
			}
		}
	}
}
`, fn.Pkg.Pkg.Name(), o.Name, fn.Name(), fn.Name(), fn.Name(), fn.Name())
	return rp.pkgDirOf(fn.Pkg.Pkg.Path()), test, true
}
