package main

// Specification expressions: Go expression syntax (go/parser) with a few call-form
// extensions, evaluated to SMT terms in a SpecEnv.

import (
	"fmt"
	"go/ast"
	"go/constant"
	"go/parser"
	"go/token"
	"go/types"
	"strconv"
	"strings"

	"golang.org/x/tools/go/ssa"
)

type SpecEnv struct {
	u       *Unit
	pkg     *types.Package
	vars    map[string]Val
	heap    *Heap
	oldHeap *Heap
	frame   *Frame
	block   *ssa.BasicBlock
	nbound  int
	depth   int
	noInst  bool
	callID  string // contract evaluated at a call site: a token unique to that call
	// ghostLocal: a callee's contract applied at a call site speaks about the trace of THAT call
	// (counters from 0, last values), not about the caller's trace: its ghost names are bound to
	// fresh per-call constants, which the call site then folds into the caller's ghost state
	ghostLocal map[string]Val
}

func (e *SpecEnv) clone() *SpecEnv {
	m := make(map[string]Val, len(e.vars))
	for k, v := range e.vars {
		m[k] = v
	}
	c := *e
	c.vars = m
	return &c
}

func (e *SpecEnv) setResults(sig *types.Signature, rs []Val) {
	for i, r := range rs {
		if len(rs) == 1 {
			e.vars["result"] = r
		}
		e.vars[fmt.Sprintf("result%d", i)] = r
		if i < sig.Results().Len() {
			if n := sig.Results().At(i).Name(); n != "" && n != "_" {
				e.vars[n] = r
			}
		}
	}
}

func (e *SpecEnv) evalBool(text string) (string, error) {
	v, err := e.eval(text)
	if err != nil {
		return "", err
	}
	if e.u.D.SortOf(v.Typ) != "Bool" {
		return "", fmt.Errorf("expression %q is not boolean (%s)", text, v.Typ)
	}
	return v.T, nil
}

func (e *SpecEnv) eval(text string) (v Val, err error) {
	defer func() {
		if r := recover(); r != nil {
			if se, ok := r.(specErr); ok {
				err = fmt.Errorf("%s in %q", string(se), clipText(text))
				return
			}
			panic(r)
		}
	}()
	x, perr := parser.ParseExpr(text)
	if perr != nil {
		return Val{}, fmt.Errorf("parse %q: %v", clipText(text), perr)
	}
	return e.expr(x), nil
}

func clipText(s string) string {
	if len(s) > 120 {
		return s[:120] + "…"
	}
	return s
}

type specErr string

func sfail(format string, a ...any) { panic(specErr(fmt.Sprintf(format, a...))) }

func (e *SpecEnv) evalLoc(text string) (l *Loc, err error) {
	defer func() {
		if r := recover(); r != nil {
			if se, ok := r.(specErr); ok {
				err = fmt.Errorf("%s in %q", string(se), text)
				return
			}
			panic(r)
		}
	}()
	x, perr := parser.ParseExpr(text)
	if perr != nil {
		return nil, perr
	}
	v := e.exprLoc(x)
	if v.Loc == nil {
		return nil, fmt.Errorf("%q is not a location", text)
	}
	return v.Loc, nil
}

var untypedInt = types.Typ[types.UntypedInt]
var tBool = types.Typ[types.Bool]
var tInt = types.Typ[types.Int]
var tString = types.Typ[types.String]

func (e *SpecEnv) expr(x ast.Expr) Val {
	v := e.exprLoc(x)
	return v
}

// exprLoc evaluates x; for addressable expressions Val.Loc is also set (and T holds the loaded value).
func (e *SpecEnv) exprLoc(x ast.Expr) Val {
	u := e.u
	switch n := x.(type) {
	case *ast.ParenExpr:
		return e.exprLoc(n.X)
	case *ast.BasicLit:
		switch n.Kind {
		case token.INT:
			c := constant.MakeFromLiteral(n.Value, token.INT, 0)
			return Val{T: intLit(c.ExactString()), Typ: untypedInt}
		case token.STRING:
			s, _ := strconv.Unquote(n.Value)
			return Val{T: u.D.StrLit(s), Typ: types.Typ[types.UntypedString]}
		case token.CHAR:
			c := constant.MakeFromLiteral(n.Value, token.CHAR, 0)
			return Val{T: c.ExactString(), Typ: types.Typ[types.UntypedRune]}
		}
		sfail("unsupported literal %s", n.Value)
	case *ast.Ident:
		return e.ident(n.Name)
	case *ast.UnaryExpr:
		a := e.expr(n.X)
		switch n.Op {
		case token.NOT:
			return Val{T: not(a.T), Typ: tBool}
		case token.SUB:
			return Val{T: "(- " + a.T + ")", Typ: a.Typ}
		case token.AND:
			al := e.exprLoc(n.X)
			if al.Loc != nil && al.Loc.Arr == "" {
				return Val{T: al.Loc.Key, Typ: types.NewPointer(al.Typ)}
			}
			if al.Loc != nil {
				return Val{T: u.addrOf(al.Loc), Typ: types.NewPointer(al.Typ), Loc: al.Loc, Addr: true}
			}
			sfail("address-of unsupported")
		}
		sfail("unsupported unary %s", n.Op)
	case *ast.StarExpr:
		p := e.expr(n.X)
		pt, ok := p.Typ.Underlying().(*types.Pointer)
		if !ok {
			sfail("deref of non-pointer %s", p.Typ)
		}
		if p.Addr && p.Loc != nil && p.Loc.Arr != "" {
			return Val{T: u.load(e.heap, p.Loc), Typ: pt.Elem(), Loc: p.Loc}
		}
		return e.derefVal(p.T, pt.Elem())
	case *ast.BinaryExpr:
		return e.binary(n)
	case *ast.SelectorExpr:
		return e.selector(n)
	case *ast.IndexExpr:
		return e.index(n)
	case *ast.CallExpr:
		return e.call(n)
	case *ast.SliceExpr:
		s := e.expr(n.X)
		lo, hi := "0", ""
		if n.Low != nil {
			lo = e.expr(n.Low).T
		}
		switch s.Typ.Underlying().(type) {
		case *types.Slice:
			hi = "(sl.len " + s.T + ")"
			if n.High != nil {
				hi = e.expr(n.High).T
			}
			return Val{T: fmt.Sprintf("(mk-slice (sl.base %s) (+ (sl.off %s) %s) (- %s %s))", s.T, s.T, lo, hi, lo), Typ: s.Typ}
		case *types.Basic:
			hi = "(gs.len " + s.T + ")"
			if n.High != nil {
				hi = e.expr(n.High).T
			}
			return Val{T: app("gs.sub", s.T, lo, hi), Typ: s.Typ}
		}
		sfail("slice expression on %s", s.Typ)
	}
	sfail("unsupported spec expression %T", x)
	return Val{}
}

func (e *SpecEnv) derefVal(ref string, el types.Type) Val {
	u := e.u
	if _, ok := el.Underlying().(*types.Struct); ok {
		return Val{T: u.loadStruct(e.heap, ref, el), Typ: el, Loc: &Loc{Arr: "", Key: ref, Typ: el}}
	}
	arr, sort := u.cellArr(el)
	l := &Loc{Arr: arr, Sort: sort, Key: ref, Typ: el}
	return Val{T: u.load(e.heap, l), Typ: el, Loc: l}
}

func (e *SpecEnv) ident(name string) Val {
	u := e.u
	if v, ok := e.vars[name]; ok {
		if v.Addr && v.Loc != nil && v.T == "" {
			v.T = u.addrOf(v.Loc) // an interior pointer: non-nil symbolic address
		} else if v.Loc != nil && v.T == "" {
			v.T = u.load(e.heap, v.Loc)
		}
		return v
	}
	switch name {
	case "true":
		return Val{T: "true", Typ: tBool}
	case "false":
		return Val{T: "false", Typ: tBool}
	case "nil":
		return Val{T: "nil", Typ: types.Typ[types.UntypedNil]}
	}
	// function-local names
	if e.frame != nil {
		if v, ok := e.frame.lookupLocal(name, e.block, e.heap); ok {
			return v
		}
		// a local that was renamed since the ledger was written (same position, same type)
		if alias := u.W.localAlias(e.frame.fn, name); alias != "" {
			if v, ok := e.frame.lookupLocal(alias, e.block, e.heap); ok {
				u.note("local `" + name + "` of " + funcDisplayName(e.frame.fn) + " is now called `" + alias + "` (renamed since the contract was written; matched by declaration order and type)")
				return v
			}
		}
	}
	// package scope
	if e.pkg != nil {
		if obj := e.pkg.Scope().Lookup(name); obj != nil {
			return e.object(obj)
		}
	}
	if obj := types.Universe.Lookup(name); obj != nil {
		if c, ok := obj.(*types.Const); ok {
			return e.constant(c)
		}
	}
	sfail("unknown identifier %s", name)
	return Val{}
}

func (e *SpecEnv) object(obj types.Object) Val {
	u := e.u
	switch o := obj.(type) {
	case *types.Const:
		return e.constant(o)
	case *types.Var:
		arr, sort := u.globalCell(o)
		l := &Loc{Arr: arr, Sort: sort, Typ: o.Type()}
		gt := u.load(e.heap, l)
		if o.Pkg() != nil && o.Parent() == o.Pkg().Scope() && u.globalNonNil(o) {
			u.emit("(assert " + nonNilTerm(gt, o.Type()) + ")")
		}
		return Val{T: gt, Typ: o.Type(), Loc: l}
	case *types.TypeName:
		return Val{T: "", Typ: o.Type(), Tup: nil, FieldSrc: nil, Fn: nil, Clo: nil, Loc: nil}
	case *types.Func:
		fn := u.W.Prog.FuncValue(o)
		if fn != nil {
			return Val{T: fmt.Sprint(u.W.funcID(fn)), Typ: o.Type(), Fn: fn}
		}
	}
	sfail("unsupported object %s", obj)
	return Val{}
}

func (e *SpecEnv) constant(c *types.Const) Val {
	u := e.u
	switch c.Val().Kind() {
	case constant.Bool:
		if constant.BoolVal(c.Val()) {
			return Val{T: "true", Typ: c.Type()}
		}
		return Val{T: "false", Typ: c.Type()}
	case constant.Int:
		return Val{T: intLit(c.Val().ExactString()), Typ: c.Type()}
	case constant.String:
		return Val{T: u.D.StrLit(constant.StringVal(c.Val())), Typ: c.Type()}
	}
	sfail("unsupported constant %s", c)
	return Val{}
}

func isUntyped(t types.Type) bool {
	b, ok := t.(*types.Basic)
	return ok && b.Info()&types.IsUntyped != 0
}

func (e *SpecEnv) nilOf(t types.Type) string { return e.u.D.Zero(t) }

func (e *SpecEnv) binary(n *ast.BinaryExpr) Val {
	u := e.u
	switch n.Op {
	case token.LAND:
		a, b := e.expr(n.X), e.expr(n.Y)
		return Val{T: and(a.T, b.T), Typ: tBool}
	case token.LOR:
		a, b := e.expr(n.X), e.expr(n.Y)
		return Val{T: or(a.T, b.T), Typ: tBool}
	}
	a, b := e.expr(n.X), e.expr(n.Y)
	typ := a.Typ
	if isUntyped(typ) {
		typ = b.Typ
	}
	if a.T == "nil" && b.T == "nil" {
		sfail("nil == nil")
	}
	if a.T == "nil" {
		a.T = e.nilOf(b.Typ)
		a.Typ = b.Typ
	}
	if b.T == "nil" {
		b.T = e.nilOf(a.Typ)
		b.Typ = a.Typ
	}
	srt := u.D.SortOf(typ)
	switch n.Op {
	case token.EQL, token.NEQ:
		var t string
		if _, isSl := typ.Underlying().(*types.Slice); isSl {
			// only comparison with nil is allowed in Go
			if b.T == "(mk-slice 0 0 0)" {
				t = "(= (sl.base " + a.T + ") 0)"
			} else if a.T == "(mk-slice 0 0 0)" {
				t = "(= (sl.base " + b.T + ") 0)"
			} else {
				t = eq(a.T, b.T)
			}
		} else if srt == "Iface" && (b.T == "(mk-iface 0 0)" || a.T == "(mk-iface 0 0)") {
			o := a.T
			if a.T == "(mk-iface 0 0)" {
				o = b.T
			}
			t = "(= (if.typ " + o + ") 0)"
		} else {
			t = eq(a.T, b.T)
		}
		if n.Op == token.NEQ {
			t = not(t)
		}
		return Val{T: t, Typ: tBool}
	}
	switch srt {
	case "Int":
		switch n.Op {
		case token.ADD:
			return Val{T: "(+ " + a.T + " " + b.T + ")", Typ: typ}
		case token.SUB:
			return Val{T: "(- " + a.T + " " + b.T + ")", Typ: typ}
		case token.MUL:
			return Val{T: "(* " + a.T + " " + b.T + ")", Typ: typ}
		case token.QUO:
			return Val{T: "(div " + a.T + " " + b.T + ")", Typ: typ}
		case token.REM:
			return Val{T: "(mod " + a.T + " " + b.T + ")", Typ: typ}
		case token.LSS:
			return Val{T: "(< " + a.T + " " + b.T + ")", Typ: tBool}
		case token.LEQ:
			return Val{T: "(<= " + a.T + " " + b.T + ")", Typ: tBool}
		case token.GTR:
			return Val{T: "(> " + a.T + " " + b.T + ")", Typ: tBool}
		case token.GEQ:
			return Val{T: "(>= " + a.T + " " + b.T + ")", Typ: tBool}
		}
	case "Str":
		switch n.Op {
		case token.ADD:
			return Val{T: app("gs.cat", a.T, b.T), Typ: typ}
		case token.LSS:
			return Val{T: app("gs.lt", a.T, b.T), Typ: tBool}
		case token.GTR:
			return Val{T: app("gs.lt", b.T, a.T), Typ: tBool}
		case token.LEQ:
			return Val{T: not(app("gs.lt", b.T, a.T)), Typ: tBool}
		case token.GEQ:
			return Val{T: not(app("gs.lt", a.T, b.T)), Typ: tBool}
		}
	}
	sfail("unsupported binary %s on %s", n.Op, typ)
	return Val{}
}

func (e *SpecEnv) selector(n *ast.SelectorExpr) Val {
	u := e.u
	// package-qualified
	if id, ok := n.X.(*ast.Ident); ok {
		if _, shadow := e.vars[id.Name]; !shadow {
			if id.Name == "g" {
				return e.ghost(n.Sel.Name)
			}
			if p := u.W.findPackage(e.pkg, id.Name, n.Sel.Name); p != nil {
				if e.frame == nil || !e.frame.hasLocal(id.Name) {
					obj := p.Scope().Lookup(n.Sel.Name)
					if obj == nil {
						sfail("unknown %s.%s", id.Name, n.Sel.Name)
					}
					return e.object(obj)
				}
			}
		}
	}
	base := e.exprLoc(n.X)
	return e.selectField(base, n.Sel.Name)
}

func (e *SpecEnv) ghost(name string) Val {
	u := e.u
	gi, ok := u.W.GhostSorts[name]
	if !ok {
		sfail("unknown ghost g.%s", name)
	}
	if e.ghostLocal != nil && name != "panicked" && name != "clock" {
		if v, ok := e.ghostLocal[name]; ok {
			return v
		}
		x := u.fresh("callee.g."+name, gi.sort(u))
		if strings.HasPrefix(name, "n") && gi.sort(u) == "Int" {
			u.emit("(assert (>= " + x + " 0))")
		}
		v := Val{T: x, Typ: gi.typ}
		e.ghostLocal[name] = v
		return v
	}
	u.scalar("$g."+name, gi.sort(u))
	return Val{T: u.hget(e.heap, "$g."+name), Typ: gi.typ}
}

func (e *SpecEnv) selectField(base Val, name string) Val {
	u := e.u
	obj, path, _ := types.LookupFieldOrMethod(base.Typ, true, e.pkg, name)
	if obj == nil {
		// try without package restriction (unexported fields of other packages)
		obj, path, _ = lookupFieldAnyPkg(base.Typ, name)
	}
	fld, ok := obj.(*types.Var)
	if !ok || fld == nil {
		sfail("no field %s in %s", name, base.Typ)
	}
	cur := base
	if cur.Addr && cur.Loc != nil {
		// the address of an embedded object: select inside the location it designates
		if pt, ok := cur.Typ.Underlying().(*types.Pointer); ok {
			l := *cur.Loc
			if l.Arr == "" {
				cur = Val{T: u.loadStruct(e.heap, l.Key, pt.Elem()), Typ: pt.Elem(), Loc: &l}
			} else {
				cur = Val{T: u.load(e.heap, &l), Typ: pt.Elem(), Loc: &l}
			}
		}
	}
	for _, i := range path {
		t := cur.Typ
		if pt, ok := t.Underlying().(*types.Pointer); ok {
			// switch to location mode through the pointer
			t = pt.Elem()
			st, ok := t.Underlying().(*types.Struct)
			if !ok {
				sfail("field of non-struct pointer %s", cur.Typ)
			}
			arr, sort := u.fieldArr(t, i)
			l := &Loc{Arr: arr, Sort: sort, Key: cur.T, Typ: st.Field(i).Type()}
			cur = Val{T: u.load(e.heap, l), Typ: st.Field(i).Type(), Loc: l}
			continue
		}
		st, ok := t.Underlying().(*types.Struct)
		if !ok {
			sfail("field of non-struct %s", t)
		}
		ft := st.Field(i).Type()
		if cur.Loc != nil {
			var l Loc
			if cur.Loc.Arr == "" {
				arr, sort := u.fieldArr(t, i)
				l = Loc{Arr: arr, Sort: sort, Key: cur.Loc.Key, Typ: ft}
			} else {
				l = *cur.Loc
				l.Path = append(append([]pathStep{}, l.Path...), pathStep{Field: i, T: t})
				l.Typ = ft
			}
			cur = Val{T: u.load(e.heap, &l), Typ: ft, Loc: &l}
		} else {
			_, sels, _ := u.D.structCtor(t)
			cur = Val{T: app(sels[i], cur.T), Typ: ft}
		}
	}
	return cur
}

func lookupFieldAnyPkg(t types.Type, name string) (types.Object, []int, bool) {
	if pt, ok := t.Underlying().(*types.Pointer); ok {
		t = pt.Elem()
	}
	if n, ok := t.(*types.Named); ok && n.Obj().Pkg() != nil {
		return types.LookupFieldOrMethod(t, true, n.Obj().Pkg(), name)
	}
	return nil, nil, false
}

func (e *SpecEnv) index(n *ast.IndexExpr) Val {
	u := e.u
	a := e.expr(n.X)
	i := e.expr(n.Index)
	switch t := a.Typ.Underlying().(type) {
	case *types.Slice:
		arr, sort := u.elemArr(t.Elem())
		l := &Loc{Arr: arr, Sort: sort, Key: "(sl.base " + a.T + ")", Key2: "(sl.at " + a.T + " " + i.T + ")", Typ: t.Elem()}
		return Val{T: u.load(e.heap, l), Typ: t.Elem(), Loc: l}
	case *types.Map:
		// specification-level m[k]: the stored value (meaningful under indom(m, k))
		_, val := u.mapArrs(t)
		return Val{T: sel(sel(u.hget(e.heap, val), a.T), i.T), Typ: t.Elem()}
	case *types.Basic:
		return Val{T: app("gs.at", a.T, i.T), Typ: types.Typ[types.Uint8]}
	case *types.Array:
		return Val{T: sel(a.T, i.T), Typ: t.Elem()}
	}
	sfail("index on %s", a.Typ)
	return Val{}
}

func (e *SpecEnv) call(n *ast.CallExpr) Val {
	u := e.u
	// special forms
	if id, ok := n.Fun.(*ast.Ident); ok {
		if _, shadow := e.vars[id.Name]; !shadow {
			switch id.Name {
			case "old":
				c := e.clone()
				c.heap = e.oldHeap
				return c.expr(n.Args[0])
			case "implies":
				a, b := e.expr(n.Args[0]), e.expr(n.Args[1])
				return Val{T: implies(a.T, b.T), Typ: tBool}
			case "iff":
				a, b := e.expr(n.Args[0]), e.expr(n.Args[1])
				return Val{T: eq(a.T, b.T), Typ: tBool}
			case "ite":
				c, a, b := e.expr(n.Args[0]), e.expr(n.Args[1]), e.expr(n.Args[2])
				t := a.Typ
				if isUntyped(t) {
					t = b.Typ
				}
				return Val{T: ite(c.T, a.T, b.T), Typ: t}
			case "forall", "exists":
				return e.quant(id.Name, n)
			case "all", "some":
				return e.quantT(id.Name, n)
			case "len":
				a := e.expr(n.Args[0])
				switch t := a.Typ.Underlying().(type) {
				case *types.Slice:
					return Val{T: "(sl.len " + a.T + ")", Typ: tInt}
				case *types.Basic:
					return Val{T: "(gs.len " + a.T + ")", Typ: tInt}
				case *types.Map:
					dom, _ := u.mapArrs(t)
					return Val{T: ite("(= "+a.T+" 0)", "0", u.cardOf(sel(u.hget(e.heap, dom), a.T), t.Key())), Typ: tInt}
				case *types.Array:
					return Val{T: fmt.Sprint(t.Len()), Typ: tInt}
				}
				sfail("len of %s", a.Typ)
			case "rowof":
				// rowof(s): the whole backing array of slice s (as a value); offof(s): its offset
				a := e.expr(n.Args[0])
				sl, ok := a.Typ.Underlying().(*types.Slice)
				if !ok {
					sfail("rowof on %s", a.Typ)
				}
				arr, _ := u.elemArr(sl.Elem())
				return Val{T: sel(u.hget(e.heap, arr), "(sl.base "+a.T+")"), Typ: types.NewArray(sl.Elem(), 0)}
			case "offof":
				a := e.expr(n.Args[0])
				return Val{T: "(sl.off " + a.T + ")", Typ: tInt}
			case "callid":
				// callid(): a token unique to the call at which this (callee) contract is applied
				if e.callID == "" {
					sfail("callid() outside a contract applied at a call site")
				}
				return Val{T: e.callID, Typ: tInt}
			case "baseof":
				// baseof(s): identity of the backing array of slice s (0 for a nil slice); two slices
				// with different bases never share an element
				a := e.expr(n.Args[0])
				if _, ok := a.Typ.Underlying().(*types.Slice); !ok {
					sfail("baseof on %s", a.Typ)
				}
				return Val{T: "(sl.base " + a.T + ")", Typ: tInt}
			case "fresh":
				a := e.expr(n.Args[0])
				oldTop := u.top(e.oldHeap)
				return Val{T: "(> " + refOf(u, a) + " " + oldTop + ")", Typ: tBool}
			case "notolder":
				// notolder(a, b): a was allocated no earlier than b
				a, b := e.expr(n.Args[0]), e.expr(n.Args[1])
				return Val{T: "(>= " + refOf(u, a) + " " + refOf(u, b) + ")", Typ: tBool}
			case "allocated":
				a := e.expr(n.Args[0])
				if _, ok := a.Typ.Underlying().(*types.Slice); ok {
					return Val{T: "(<= (sl.base " + a.T + ") " + u.top(e.heap) + ")", Typ: tBool}
				}
				return Val{T: "(<= " + a.T + " " + u.top(e.heap) + ")", Typ: tBool}
			case "indom":
				// indom(m, k)
				m, k := e.expr(n.Args[0]), e.expr(n.Args[1])
				mt, ok := m.Typ.Underlying().(*types.Map)
				if !ok {
					sfail("indom on %s", m.Typ)
				}
				dom, _ := u.mapArrs(mt)
				return Val{T: and("(not (= "+m.T+" 0))", sel(sel(u.hget(e.heap, dom), m.T), k.T)), Typ: tBool}
			case "typeIs":
				// typeIs(x, T): dynamic type of interface x is T
				a := e.expr(n.Args[0])
				t := u.W.resolveType(e.pkg, n.Args[1])
				return Val{T: fmt.Sprintf("(= (if.typ %s) %d)", a.T, u.D.TypeID(t)), Typ: tBool}
			case "implementsI":
				a := e.expr(n.Args[0])
				t := u.W.resolveType(e.pkg, n.Args[1])
				impl := u.D.Fun("implements", []string{"Int", "Int"}, "Bool")
				iid := u.D.TypeID(t)
				u.W.implementsAxioms(u, t, impl, iid)
				return Val{T: and("(not (= (if.typ "+a.T+") 0))", app(impl, "(if.typ "+a.T+")", fmt.Sprint(iid))), Typ: tBool}
			case "seen":
				// seen(N, k): key k has already been produced by the map iteration of loop N
				if e.frame == nil {
					sfail("seen() outside a function body")
				}
				lit, ok := n.Args[0].(*ast.BasicLit)
				if !ok {
					sfail("seen(N, k): N must be a literal loop ordinal")
				}
				ord, _ := strconv.Atoi(lit.Value)
				r := e.frame.rangeOfLoop(ord)
				if r == nil {
					sfail("loop %d does not range over a map", ord)
				}
				k := e.expr(n.Args[1])
				mt := r.X.Type().Underlying().(*types.Map)
				vn := e.frame.visitedName(r)
				u.scalar(vn, "(Array "+u.D.SortOf(mt.Key())+" Bool)")
				return Val{T: sel(u.hget(e.heap, vn), k.T), Typ: tBool}
			case "countval", "countvalall":
				return e.countval(id.Name, n)
			case "strLitsIn":
				// strLitsIn(s, "funcKey"): s equals one of the string constants occurring in the
				// named function of the current package (mechanically extracted from its SSA)
				a := e.expr(n.Args[0])
				lit, ok := n.Args[1].(*ast.BasicLit)
				if !ok {
					sfail("strLitsIn(s, \"funcKey\")")
				}
				key, _ := strconv.Unquote(lit.Value)
				fn := u.W.findFunction(&Contract{Kind: "func", Key: key, Pkg: e.pkg.Path()})
				if fn == nil {
					sfail("strLitsIn: no function %s", key)
				}
				seen := map[string]bool{}
				var alts []string
				for _, b := range fn.Blocks {
					for _, in := range b.Instrs {
						for _, op := range in.Operands(nil) {
							if c, ok := (*op).(*ssa.Const); ok && c.Value != nil && c.Value.Kind() == constant.String {
								sv := constant.StringVal(c.Value)
								if !seen[sv] {
									seen[sv] = true
									alts = append(alts, eq(a.T, u.D.StrLit(sv)))
								}
							}
						}
					}
				}
				return Val{T: or(alts...), Typ: tBool}
			case "curkey":
				// curkey(N): the key produced by the current iteration of map loop N
				if e.frame == nil {
					sfail("curkey() outside a function body")
				}
				lit, ok := n.Args[0].(*ast.BasicLit)
				if !ok {
					sfail("curkey(N): N must be a literal loop ordinal")
				}
				ord, _ := strconv.Atoi(lit.Value)
				for h, o := range e.frame.loopOrd {
					if o != ord {
						continue
					}
					for _, in := range e.frame.fn.Blocks[h].Instrs {
						if nx, ok := in.(*ssa.Next); ok {
							if tv, ok := e.frame.vals[nx]; ok && len(tv.Tup) == 3 {
								return tv.Tup[1]
							}
						}
					}
				}
				sfail("curkey(%d): no map iteration in progress", ord)
			case "litWitnesses":
				// litWitnesses(m, "funcKey"): the ground facts m[key][i] == lit for every
				// constant-keyed map update with a string-array literal in the named function.
				// They are read off the SSA as hints only: the solver checks each against the heap.
				m := e.expr(n.Args[0])
				lit, ok := n.Args[1].(*ast.BasicLit)
				if !ok {
					sfail("litWitnesses(m, \"funcKey\")")
				}
				key, _ := strconv.Unquote(lit.Value)
				fn := u.W.findFunction(&Contract{Kind: "func", Key: key, Pkg: e.pkg.Path()})
				if fn == nil {
					sfail("litWitnesses: no function %s", key)
				}
				mt, ok := m.Typ.Underlying().(*types.Map)
				if !ok {
					sfail("litWitnesses: not a map")
				}
				st, ok := mt.Elem().Underlying().(*types.Slice)
				if !ok {
					sfail("litWitnesses: map values must be slices")
				}
				dom, val := u.mapArrs(mt)
				earr, _ := u.elemArr(st.Elem())
				var facts []string
				for _, tr := range mapLitTriples(fn) {
					if !types.Identical(tr.mu.Map.Type(), m.Typ) {
						continue
					}
					kt := u.constVal(tr.key).T
					sv := sel(sel(u.hget(e.heap, val), m.T), kt)
					facts = append(facts, sel(sel(u.hget(e.heap, dom), m.T), kt))
					elem := sel(sel(u.hget(e.heap, earr), "(sl.base "+sv+")"), "(sl.at "+sv+" "+u.constVal(tr.idx).T+")")
					facts = append(facts, eq(elem, u.D.StrLit(tr.lit)))
					facts = append(facts, fmt.Sprintf("(= (sl.len %s) %d)", sv, tr.n))
				}
				if len(facts) == 0 {
					sfail("litWitnesses: no literal map updates found")
				}
				return Val{T: "(and " + strings.Join(facts, " ") + ")", Typ: tBool}
			case "forLits", "anyLit":
				// forLits(x, "funcKey", body) / anyLit(...): conjunction / disjunction of body with x
				// bound to each string constant stored into a literal-initialised map in the named function
				xid, ok := n.Args[0].(*ast.Ident)
				lit, ok2 := n.Args[1].(*ast.BasicLit)
				if !ok || !ok2 {
					sfail("%s(x, \"funcKey\", body)", id.Name)
				}
				key, _ := strconv.Unquote(lit.Value)
				fn := u.W.findFunction(&Contract{Kind: "func", Key: key, Pkg: e.pkg.Path()})
				if fn == nil {
					sfail("%s: no function %s", id.Name, key)
				}
				var parts []string
				seen := map[string]bool{}
				for _, tr := range mapLitTriples(fn) {
					if seen[tr.lit] {
						continue
					}
					seen[tr.lit] = true
					c := e.clone()
					c.vars[xid.Name] = Val{T: u.D.StrLit(tr.lit), Typ: tString}
					parts = append(parts, c.expr(n.Args[2]).T)
				}
				if len(parts) == 0 {
					sfail("%s: no literal map entries in %s", id.Name, key)
				}
				if id.Name == "forLits" {
					return Val{T: "(and " + strings.Join(parts, " ") + ")", Typ: tBool}
				}
				return Val{T: "(or " + strings.Join(parts, " ") + ")", Typ: tBool}
			case "gf":
				// gf(p, "name"): ghost integer field of the object p points to (e.g. the
				// mathematical value of a *big.Int); lives in its own heap array
				a := e.expr(n.Args[0])
				lit, ok := n.Args[1].(*ast.BasicLit)
				if !ok {
					sfail("gf(p, \"name\")")
				}
				name, _ := strconv.Unquote(lit.Value)
				arr := "GF:" + name
				u.declArr(arr, "(Array Int Int)")
				l := &Loc{Arr: arr, Sort: "(Array Int Int)", Key: a.T, Typ: types.Typ[types.UntypedInt]}
				return Val{T: u.load(e.heap, l), Typ: types.Typ[types.UntypedInt], Loc: l}
			case "tableInt":
				// tableInt("var", j): the j-th integer of the composite-literal initialiser of a
				// package-level variable (elements are integer literals or big.NewInt(K) calls)
				lit, ok := n.Args[0].(*ast.BasicLit)
				if !ok {
					sfail("tableInt(\"var\", j)")
				}
				vn, _ := strconv.Unquote(lit.Value)
				j := e.expr(n.Args[1])
				vals, err := u.W.intTable(e.tablePkg(&vn), vn)
				if err != nil {
					sfail("%v", err)
				}
				// an uninterpreted function with one ground fact per index (matching-friendly)
				fn := u.D.Fun("tbl:"+vn, []string{"Int"}, "Int")
				for i, v := range vals {
					u.D.axiom(fmt.Sprintf("(= (%s %d) %s)", fn, i, v))
				}
				return Val{T: app(fn, j.T), Typ: types.Typ[types.UntypedInt]}
			case "tableLen":
				lit, ok := n.Args[0].(*ast.BasicLit)
				if !ok {
					sfail("tableLen(\"var\")")
				}
				vn, _ := strconv.Unquote(lit.Value)
				vals, err := u.W.intTable(e.tablePkg(&vn), vn)
				if err != nil {
					sfail("%v", err)
				}
				return Val{T: fmt.Sprint(len(vals)), Typ: types.Typ[types.UntypedInt]}
			case "given":
				// given(L(args...), body): body under the instance of lemma L at args. L is proved
				// as its own obligation; here it is only instantiated.
				lc, ok := n.Args[0].(*ast.CallExpr)
				lid, ok2 := lc.Fun.(*ast.Ident)
				if !ok || !ok2 {
					sfail("given(lemma(args...), body)")
				}
				var lm *Lemma
				for _, l := range u.W.CS.Lemmas {
					if l.Name == lid.Name && !l.Axiom {
						lm = l
					}
				}
				if lm == nil || len(lm.Params) != len(lc.Args) {
					sfail("given: no lemma %s with %d parameters", lid.Name, len(lc.Args))
				}
				c := &SpecEnv{u: u, pkg: u.W.pkgByPath(lm.Pkg), vars: map[string]Val{}, heap: e.heap, oldHeap: e.oldHeap, depth: e.depth + 1}
				if c.pkg == nil {
					c.pkg = e.pkg
				}
				for i, p := range lm.Params {
					a := e.expr(lc.Args[i])
					a.Typ = u.W.resolveTypeText(c.pkg, p.Type)
					c.vars[p.Name] = a
				}
				lx, err := parser.ParseExpr(lm.Text)
				if err != nil {
					sfail("lemma %s: %v", lm.Name, err)
				}
				hyp := c.expr(lx)
				body := e.expr(n.Args[1])
				u.note("uses lemma " + lm.Name + " (proved as its own obligation)")
				return Val{T: implies(hyp.T, body.T), Typ: tBool}
			case "isConstOf":
				// isConstOf(x, T, excluded...): x equals one of the constants of named type T
				// declared in T's package (mechanically extracted), except the excluded ones
				a := e.expr(n.Args[0])
				t := u.W.resolveType(e.pkg, n.Args[1])
				nt, ok := types.Unalias(t).(*types.Named)
				if !ok || nt.Obj().Pkg() == nil {
					sfail("isConstOf needs a named type")
				}
				excl := map[string]bool{}
				for _, x := range n.Args[2:] {
					excl[types.ExprString(x)] = true
				}
				var alts []string
				sc := nt.Obj().Pkg().Scope()
				for _, name := range sc.Names() {
					c, ok := sc.Lookup(name).(*types.Const)
					if !ok || !types.Identical(c.Type(), t) || excl[name] {
						continue
					}
					alts = append(alts, eq(a.T, e.constant(c).T))
				}
				if len(alts) == 0 {
					sfail("isConstOf: no constants of type %s", t)
				}
				return Val{T: or(alts...), Typ: tBool}
			case "unbox":
				// unbox(x, T): payload of interface x as T
				a := e.expr(n.Args[0])
				t := u.W.resolveType(e.pkg, n.Args[1])
				if u.D.SortOf(t) == "Int" {
					return Val{T: "(if.val " + a.T + ")", Typ: t}
				}
				srt := u.D.SortOf(t)
				u.D.Fun("box:"+shortType(t), []string{srt}, "Int")
				unbox := u.D.Fun("unbox:"+shortType(t), []string{"Int"}, srt)
				return Val{T: app(unbox, "(if.val "+a.T+")"), Typ: t}
			}
			// spec functions
			if sp := u.W.specFunc(e.pkg, id.Name); sp != nil {
				return e.applySpec(sp, n.Args)
			}
		}
	}
	// pkg.specFunc(...)
	if se, ok := n.Fun.(*ast.SelectorExpr); ok {
		if id, ok := se.X.(*ast.Ident); ok {
			if p := u.W.findPackage(e.pkg, id.Name, ""); p != nil {
				if _, shadow := e.vars[id.Name]; !shadow {
					if sp := u.W.specFunc(p, se.Sel.Name); sp != nil && sp.Pkg == p.Path() {
						return e.applySpec(sp, n.Args)
					}
				}
			}
		}
	}
	// conversion T(x)
	if t := u.W.tryResolveType(e.pkg, n.Fun); t != nil && len(n.Args) == 1 {
		a := e.expr(n.Args[0])
		if a.T == "nil" {
			return Val{T: e.nilOf(t), Typ: t}
		}
		if !isUntyped(a.Typ) && u.D.SortOf(a.Typ) != u.D.SortOf(t) {
			sfail("conversion %s -> %s changes sort", a.Typ, t)
		}
		return Val{T: a.T, Typ: t}
	}
	// Go function / method call: allowed when the callee is pure
	return e.goCall(n)
}

func (e *SpecEnv) goCall(n *ast.CallExpr) Val {
	u := e.u
	var args []Val
	var fnObj *types.Func
	var recv *Val
	switch f := n.Fun.(type) {
	case *ast.Ident:
		if e.pkg != nil {
			if o, ok := e.pkg.Scope().Lookup(f.Name).(*types.Func); ok {
				fnObj = o
			}
		}
	case *ast.SelectorExpr:
		if id, ok := f.X.(*ast.Ident); ok {
			if _, shadow := e.vars[id.Name]; !shadow {
				if p := u.W.findPackage(e.pkg, id.Name, f.Sel.Name); p != nil && (e.frame == nil || !e.frame.hasLocal(id.Name)) {
					if o, ok := p.Scope().Lookup(f.Sel.Name).(*types.Func); ok {
						fnObj = o
					}
				}
			}
		}
		if fnObj == nil {
			r := e.expr(f.X)
			obj, _, _ := types.LookupFieldOrMethod(r.Typ, true, e.pkg, f.Sel.Name)
			if obj == nil {
				obj, _, _ = lookupFieldAnyPkg(r.Typ, f.Sel.Name)
			}
			if o, ok := obj.(*types.Func); ok {
				fnObj = o
				recv = &r
			} else if fv, ok := obj.(*types.Var); ok {
				// call of a function-typed field: use its field contract as a pure function
				_ = fv
				sfail("call of function-typed field %s in spec", f.Sel.Name)
			}
		}
	}
	if fnObj == nil {
		sfail("cannot resolve call %s", types.ExprString(n.Fun))
	}
	if recv != nil {
		args = append(args, *recv)
	}
	for _, a := range n.Args {
		args = append(args, e.expr(a))
	}
	sig := fnObj.Type().(*types.Signature)
	// coerce untyped / nil args
	off := 0
	if recv != nil {
		off = 1
	}
	for i := off; i < len(args); i++ {
		pi := i - off
		if pi < sig.Params().Len() {
			pt := sig.Params().At(pi).Type()
			if args[i].T == "nil" {
				args[i].T = e.nilOf(pt)
			}
			args[i].Typ = pt
		}
	}
	var c *Contract
	var callee *ssa.Function
	if recv != nil && types.IsInterface(recv.Typ) {
		c = u.W.interfaceContract(recv.Typ, fnObj)
	} else {
		callee = u.W.Prog.FuncValue(fnObj)
		if callee != nil {
			c = u.W.funcContract(callee)
			if c == nil {
				c = u.W.externContract(callee)
			}
		}
	}
	if c == nil || !c.Flags["pure"] {
		sfail("call to %s in a specification: callee has no 'pure' contract", fnObj.FullName())
	}
	c.Used = true
	res := u.W.pureApp(u, c, callee, sig, args, e.heap)
	// instantiate the callee's postcondition at ground arguments
	ground := true
	for _, a := range args {
		if strings.Contains(a.T, "?") {
			ground = false
		}
	}
	if ground && !e.noInst {
		env := u.W.calleeEnv(u, c, callee, sig, args)
		env.heap, env.oldHeap, env.noInst = e.heap, e.heap, true
		env.setResults(sig, []Val{res})
		for _, cl := range c.ClausesOf("ensures") {
			if t, err := env.evalBool(cl.Text); err == nil {
				u.assume("true", t)
			}
		}
		if c.Kind == "extern" || c.Flags["trusted"] {
			u.trusted["assumed contract: "+c.Target] = true
		}
	}
	return res
}

func (e *SpecEnv) applySpec(sp *SpecFunc, argx []ast.Expr) Val {
	u := e.u
	if len(argx) != len(sp.Params) {
		sfail("spec %s: want %d args", sp.Name, len(sp.Params))
	}
	pkg := u.W.pkgByPath(sp.Pkg)
	if pkg == nil {
		pkg = e.pkg
	}
	var args []Val
	for i, a := range argx {
		v := e.expr(a)
		pt := u.W.resolveTypeText(pkg, sp.Params[i].Type)
		if v.T == "nil" {
			v.T = e.nilOf(pt)
		}
		if !isUntyped(v.Typ) && u.D.SortOf(v.Typ) != u.D.SortOf(pt) {
			sfail("spec %s: argument %d has type %s, want %s", sp.Name, i+1, v.Typ, pt)
		}
		v.Typ = pt
		if !(v.Addr && v.Loc != nil) {
			// (the address of an embedded object keeps its location: selections through it must
			// reach the enclosing object's memory)
			v.Loc = nil
		}
		args = append(args, v)
	}
	rt := u.W.resolveTypeText(pkg, sp.Ret)
	if strings.TrimSpace(sp.Body) == "" {
		// uninterpreted
		var sorts []string
		var ts []string
		for _, a := range args {
			sorts = append(sorts, u.D.SortOf(a.Typ))
			ts = append(ts, a.T)
		}
		fn := u.D.Fun("spec:"+sp.Name, sorts, u.D.SortOf(rt))
		u.W.specAxioms(u, sp)
		if e.depth < 6 {
			u.W.instAxioms(e, sp, args)
		}
		return Val{T: app(fn, ts...), Typ: rt}
	}
	if e.depth > 20 {
		sfail("spec functions nested too deeply (recursion?) at %s", sp.Name)
	}
	c := &SpecEnv{u: u, pkg: pkg, vars: map[string]Val{}, heap: e.heap, oldHeap: e.oldHeap, depth: e.depth + 1}
	for i, p := range sp.Params {
		c.vars[p.Name] = args[i]
	}
	x, err := parser.ParseExpr(sp.Body)
	if err != nil {
		sfail("spec %s: %v", sp.Name, err)
	}
	v := c.expr(x)
	v.Typ = rt
	return v
}

func (e *SpecEnv) quant(kind string, n *ast.CallExpr) Val {
	// forall(i, lo, hi, body [, trigger])
	if len(n.Args) != 4 && len(n.Args) != 5 {
		sfail("%s(i, lo, hi, body [, trigger])", kind)
	}
	id, ok := n.Args[0].(*ast.Ident)
	if !ok {
		sfail("%s: first argument must be an identifier", kind)
	}
	lo, hi := e.expr(n.Args[1]), e.expr(n.Args[2])
	e.nbound++
	bv := sym(fmt.Sprintf("%s?%d.%d", id.Name, e.depth, e.u.nextBound()))
	c := e.clone()
	c.vars[id.Name] = Val{T: bv, Typ: tInt}
	body := c.expr(n.Args[3])
	rng := fmt.Sprintf("(and (<= %s %s) (< %s %s))", lo.T, bv, bv, hi.T)
	if len(n.Args) == 5 {
		// explicit instantiation pattern (a term mentioning the bound variable)
		tr := c.expr(n.Args[4])
		if kind == "forall" {
			return Val{T: fmt.Sprintf("(forall ((%s Int)) (! (=> %s %s) :pattern (%s)))", bv, rng, body.T, tr.T), Typ: tBool}
		}
		return Val{T: fmt.Sprintf("(exists ((%s Int)) (! (and %s %s) :pattern (%s)))", bv, rng, body.T, tr.T), Typ: tBool}
	}
	if kind == "forall" {
		return Val{T: fmt.Sprintf("(forall ((%s Int)) (=> %s %s))", bv, rng, body.T), Typ: tBool}
	}
	return Val{T: fmt.Sprintf("(exists ((%s Int)) (and %s %s))", bv, rng, body.T), Typ: tBool}
}

func (e *SpecEnv) quantT(kind string, n *ast.CallExpr) Val {
	// all(x, T, body) / some(x, T, body)
	if len(n.Args) != 3 {
		sfail("%s(x, T, body)", kind)
	}
	id, ok := n.Args[0].(*ast.Ident)
	if !ok {
		sfail("%s: first argument must be an identifier", kind)
	}
	t := e.u.W.resolveType(e.pkg, n.Args[1])
	bv := sym(fmt.Sprintf("%s?%d.%d", id.Name, e.depth, e.u.nextBound()))
	c := e.clone()
	c.vars[id.Name] = Val{T: bv, Typ: t}
	body := c.expr(n.Args[2])
	srt := e.u.D.SortOf(t)
	guard := "true"
	if lo, hi, ok := intRange(t); ok {
		guard = fmt.Sprintf("(and (<= %s %s) (<= %s %s))", lo, bv, bv, hi)
	}
	if kind == "all" {
		return Val{T: fmt.Sprintf("(forall ((%s %s)) %s)", bv, srt, implies(guard, body.T)), Typ: tBool}
	}
	return Val{T: fmt.Sprintf("(exists ((%s %s)) %s)", bv, srt, and(guard, body.T)), Typ: tBool}
}

func (u *Unit) nextBound() int {
	u.nfresh++
	return u.nfresh
}

// ---------- local name resolution inside the function under contract ----------

func (f *Frame) hasLocal(name string) bool {
	for _, p := range f.fn.Params {
		if p.Name() == name {
			return true
		}
	}
	return false
}

func (f *Frame) lookupLocal(name string, at *ssa.BasicBlock, heap *Heap) (Val, bool) {
	u := f.u
	for _, p := range f.fn.Params {
		if p.Name() == name {
			return f.val(p), true
		}
	}
	if at != nil {
		// iterations completed in a range-over-slice loop
		if name == "k" {
			for _, in := range at.Instrs {
				if phi, ok := in.(*ssa.Phi); ok && phi.Comment == "rangeindex" {
					return Val{T: "(+ " + f.val(phi).T + " 1)", Typ: tInt}, true
				}
			}
		}
		for _, in := range at.Instrs {
			if phi, ok := in.(*ssa.Phi); ok && phi.Comment == name {
				return f.val(phi), true
			}
		}
	}
	// address-taken locals and named results
	for _, b := range f.fn.Blocks {
		for _, in := range b.Instrs {
			if al, ok := in.(*ssa.Alloc); ok && al.Comment == name {
				if r, ok := f.allocRefs[al]; ok {
					el := al.Type().Underlying().(*types.Pointer).Elem()
					v := (&SpecEnv{u: u, heap: heap}).derefVal(r, el)
					return v, true
				}
			}
		}
	}
	// DebugRef: latest definition dominating `at`
	if at != nil {
		var best ssa.Value
		bestDepth := -1
		for _, b := range f.fn.Blocks {
			if !(b == at || b.Dominates(at)) {
				continue
			}
			d := domDepth(b)
			for _, in := range b.Instrs {
				dr, ok := in.(*ssa.DebugRef)
				if !ok || dr.IsAddr {
					continue
				}
				if o := dr.Object(); o != nil && o.Name() == name {
					if _, isVar := o.(*types.Var); isVar && d >= bestDepth {
						if _, done := f.vals[dr.X]; done || isConstLike(dr.X) {
							best, bestDepth = dr.X, d
						}
					}
				}
			}
		}
		if best != nil {
			// go/ssa records the declaration `x := map[K]V{}` / `x := []T{}` with a nil constant; when the
			// variable is never reassigned every other reference names the one real definition
			if c, isC := best.(*ssa.Const); isC && c.Value == nil {
				var only ssa.Value
				multi := false
				for _, b := range f.fn.Blocks {
					for _, in := range b.Instrs {
						dr, ok := in.(*ssa.DebugRef)
						if !ok || dr.IsAddr || dr.Object() == nil || dr.Object().Name() != name {
							continue
						}
						if cc, isCC := dr.X.(*ssa.Const); isCC && cc.Value == nil {
							continue
						}
						if only != nil && only != dr.X {
							multi = true
						}
						only = dr.X
					}
				}
				if only != nil && !multi {
					if oi, ok := only.(ssa.Instruction); ok && (oi.Block() == at || oi.Block().Dominates(at)) {
						if _, done := f.vals[only]; done {
							return f.val(only), true
						}
					}
				}
			}
			return f.val(best), true
		}
	}
	return Val{}, false
}

func isConstLike(v ssa.Value) bool {
	switch v.(type) {
	case *ssa.Const, *ssa.Parameter, *ssa.Function, *ssa.Global:
		return true
	}
	return false
}

func domDepth(b *ssa.BasicBlock) int {
	d := 0
	for x := b.Idom(); x != nil; x = x.Idom() {
		d++
	}
	return d
}

// specEnvAt builds the environment for specs of the function under contract at a block.
func (f *Frame) specEnvAt(b *ssa.BasicBlock, heap *Heap) *SpecEnv {
	env := &SpecEnv{u: f.u, pkg: f.fn.Pkg.Pkg, vars: map[string]Val{}, heap: heap, oldHeap: f.entryHeap, frame: f, block: b}
	if f.fn.Signature.Recv() != nil && len(f.fn.Params) > 0 {
		env.vars["this"] = f.val(f.fn.Params[0])
	}
	if f.contract != nil && b != nil && len(f.contract.ClausesOf("let")) > 0 {
		f.bindLets(env, f.contract)
	}
	return env
}


type litTriple struct {
	key  *ssa.Const
	idx  *ssa.Const
	lit  string
	mu   *ssa.MapUpdate
	n    int
}

// mapLitTriples reads (key, index, string literal) triples off the constant-keyed map
// updates with string-array literals in fn. Hints only: every use is checked by the solver
// against the symbolic heap or compared with what the code provably does.
func mapLitTriples(fn *ssa.Function) []litTriple {
	var out []litTriple
	for _, b := range fn.Blocks {
		for _, in := range b.Instrs {
			mu, ok := in.(*ssa.MapUpdate)
			if !ok {
				continue
			}
			kc, ok := mu.Key.(*ssa.Const)
			if !ok {
				continue
			}
			sl, ok := mu.Value.(*ssa.Slice)
			if !ok {
				continue
			}
			al, ok := sl.X.(*ssa.Alloc)
			if !ok {
				continue
			}
			var ts []litTriple
			for _, ref := range *al.Referrers() {
				ia, ok := ref.(*ssa.IndexAddr)
				if !ok {
					continue
				}
				ic, ok := ia.Index.(*ssa.Const)
				if !ok {
					continue
				}
				for _, r2 := range *ia.Referrers() {
					if stv, ok := r2.(*ssa.Store); ok {
						if c, ok := stv.Val.(*ssa.Const); ok && c.Value != nil && c.Value.Kind() == constant.String {
							ts = append(ts, litTriple{key: kc, idx: ic, lit: constant.StringVal(c.Value), mu: mu})
						}
					}
				}
			}
			for i := range ts {
				ts[i].n = len(ts)
			}
			out = append(out, ts...)
		}
	}
	return out
}


// tablePkg resolves "pkg.var" table names; *name is reduced to the bare variable name.
func (e *SpecEnv) tablePkg(name *string) string {
	if i := strings.Index(*name, "."); i >= 0 {
		pn := (*name)[:i]
		*name = (*name)[i+1:]
		if p := e.u.W.findPackage(e.pkg, pn, *name); p != nil {
			return p.Path()
		}
	}
	return e.pkg.Path()
}


// countval(N, k, valexpr, v): the number of keys k already produced by the map iteration of loop N
// for which the integer-valued valexpr (an expression of k) equals v.
// countvalall(m, k, valexpr, v): the same count over all keys of the map m.
//
// Encoding. P is a fresh array with P[k] = valexpr(k) for every key (a definition by
// comprehension, always consistent), and cnt(S, P, v) is the cardinality of {k in S | P[k] = v},
// a mathematical function of its three arguments. What the solver is told about it are instances
// of its defining equations only: it is never negative, it is 0 for the empty set, and - at a
// recorded iteration step, where the visited set grows by exactly one new key k0 -
// cnt(S + k0, P, v) = cnt(S, P, v) + (P[k0] = v ? 1 : 0) for every v. Values of P in different
// program states are related by the solver through array extensionality.
func (e *SpecEnv) countval(kind string, n *ast.CallExpr) Val {
	u := e.u
	if len(n.Args) != 4 {
		sfail("%s(N|m, k, valexpr, v)", kind)
	}
	id, ok := n.Args[1].(*ast.Ident)
	if !ok {
		sfail("%s: second argument must be an identifier", kind)
	}
	var set string
	var keyT types.Type
	var step *mapStep
	if kind == "countval" {
		if e.frame == nil {
			sfail("countval() outside a function body")
		}
		lit, ok := n.Args[0].(*ast.BasicLit)
		if !ok {
			sfail("countval(N, ...): N must be a literal loop ordinal")
		}
		ord, _ := strconv.Atoi(lit.Value)
		r := e.frame.rangeOfLoop(ord)
		if r == nil {
			sfail("loop %d does not range over a map", ord)
		}
		mt := r.X.Type().Underlying().(*types.Map)
		keyT = mt.Key()
		vn := e.frame.visitedName(r)
		u.scalar(vn, "(Array "+u.D.SortOf(keyT)+" Bool)")
		set = u.hget(e.heap, vn)
		if st, ok := e.frame.mapSteps[set]; ok {
			step = &st
		}
	} else {
		m := e.expr(n.Args[0])
		mt, ok := m.Typ.Underlying().(*types.Map)
		if !ok {
			sfail("countvalall(m, ...): m must be a map")
		}
		keyT = mt.Key()
		dom, _ := u.mapArrs(mt)
		set = ite("(= "+m.T+" 0)", "((as const (Array "+u.D.SortOf(keyT)+" Bool)) false)", sel(u.hget(e.heap, dom), m.T))
	}
	ks := u.D.SortOf(keyT)
	// P[k] = valexpr(k)
	bv := sym(fmt.Sprintf("%s?%d.%d", id.Name, e.depth, u.nextBound()))
	c := e.clone()
	c.vars[id.Name] = Val{T: bv, Typ: keyT}
	val := c.expr(n.Args[2])
	if u.D.SortOf(val.Typ) != "Int" {
		sfail("%s: the counted expression must be integer-valued", kind)
	}
	P := u.fresh("cntproj", "(Array "+ks+" Int)")
	u.emit(fmt.Sprintf("(assert (forall ((%s %s)) (! (= (select %s %s) %s) :pattern ((select %s %s)))))", bv, ks, P, bv, val.T, P, bv))
	cnt := u.D.Fun("cnt:"+shortType(keyT), []string{"(Array " + ks + " Bool)", "(Array " + ks + " Int)", "Int"}, "Int")
	// (named by constants rather than macros: the terms occur in instantiation patterns)
	setD := u.fresh("cntset", "(Array "+ks+" Bool)")
	u.emit("(assert (= " + setD + " " + set + "))")
	u.emit(fmt.Sprintf("(assert (forall ((v Int)) (! (>= (%s %s %s v) 0) :pattern ((%s %s %s v)))))", cnt, setD, P, cnt, setD, P))
	empty := "((as const (Array " + ks + " Bool)) false)"
	u.emit(fmt.Sprintf("(assert (forall ((v Int)) (! (= (%s %s %s v) 0) :pattern ((%s %s %s v)))))", cnt, empty, P, cnt, empty, P))
	if step != nil {
		// set = ite(ok, store(old, k0, true), old) and k0 is not in old when ok
		oldD := u.fresh("cntold", "(Array "+ks+" Bool)")
		u.emit("(assert (= " + oldD + " " + step.old + "))")
		u.emit(fmt.Sprintf("(assert (forall ((v Int)) (! (= (%s %s %s v) (+ (%s %s %s v) (ite (and %s (= (select %s %s) v)) 1 0))) :pattern ((%s %s %s v)))))",
			cnt, setD, P, cnt, oldD, P, step.ok, P, step.key, cnt, setD, P))
	}
	v := e.expr(n.Args[3])
	return Val{T: app(cnt, setD, P, v.T), Typ: tInt}
}
