package main

// Package-level variables that are written exactly once, by their package initialiser, with a
// value that cannot be nil (errors.New / fmt.Errorf / an allocation), and whose address is never
// taken: every load yields a non-nil value. Decided syntactically over the SSA of the whole
// module on every run (back end "census"); a unit that relies on the fact carries the
// obligation, so a second writer, a nil initialiser or an escaping address fails it.

import (
	"go/token"
	"go/types"

	"golang.org/x/tools/go/ssa"
)

type globalFact struct {
	ok  bool
	why string
	val *ssa.Const // set for initOnceConst facts
}

func (w *World) initOnceNonNil(g *types.Var) globalFact {
	if w.globalFacts == nil {
		w.globalFacts = map[*types.Var]globalFact{}
	}
	if gf, ok := w.globalFacts[g]; ok {
		return gf
	}
	gf := w.computeInitOnceNonNil(g)
	w.globalFacts[g] = gf
	return gf
}

func (w *World) computeInitOnceNonNil(g *types.Var) globalFact {
	switch g.Type().Underlying().(type) {
	case *types.Interface, *types.Pointer:
	default:
		return globalFact{ok: false, why: "not an interface or pointer"}
	}
	if g.Pkg() == nil {
		return globalFact{ok: false, why: "no package"}
	}
	sp := w.ssaPkg(g.Pkg().Path())
	if sp == nil {
		return globalFact{ok: false, why: "package not loaded"}
	}
	sg, _ := sp.Members[g.Name()].(*ssa.Global)
	if sg == nil {
		return globalFact{ok: false, why: "no ssa global"}
	}
	stores := 0
	fns := allFunctions(w)
	if in := sp.Func("init"); in != nil {
		fns[in] = true
	}
	for fn := range fns {
		if fn.Blocks == nil {
			continue
		}
		for _, b := range fn.Blocks {
			for _, in := range b.Instrs {
				uses := false
				for _, op := range in.Operands(nil) {
					if op != nil && *op == ssa.Value(sg) {
						uses = true
					}
				}
				if !uses {
					continue
				}
				switch x := in.(type) {
				case *ssa.UnOp:
					if x.Op != token.MUL {
						return globalFact{ok: false, why: "address used by " + fn.String()}
					}
				case *ssa.Store:
					if x.Addr != ssa.Value(sg) {
						return globalFact{ok: false, why: "address stored by " + fn.String()}
					}
					if fn.Pkg != sp || fn.Name() != "init" || fn.Synthetic == "" {
						return globalFact{ok: false, why: "written by " + fn.String()}
					}
					if !neverNil(x.Val) {
						return globalFact{ok: false, why: "initialiser may be nil"}
					}
					stores++
				default:
					return globalFact{ok: false, why: "address escapes in " + fn.String()}
				}
			}
		}
	}
	if stores != 1 {
		return globalFact{ok: false, why: "not initialised exactly once"}
	}
	return globalFact{ok: true, why: ""}
}

func neverNil(v ssa.Value) bool {
	switch x := v.(type) {
	case *ssa.Alloc, *ssa.MakeMap, *ssa.MakeSlice, *ssa.MakeClosure:
		return true
	case *ssa.MakeInterface:
		return true
	case *ssa.ChangeInterface:
		return neverNil(x.X)
	case *ssa.Call:
		if fn, ok := x.Call.Value.(*ssa.Function); ok && fn.Pkg != nil {
			switch fn.Pkg.Pkg.Path() + "." + fn.Name() {
			case "errors.New", "fmt.Errorf":
				return true
			}
		}
	}
	return false
}

// globalNonNil records (once per unit and global) the census obligation and returns whether a
// load of g may be assumed non-nil.
func (u *Unit) globalNonNil(g *types.Var) bool {
	gf := u.W.initOnceNonNil(g)
	if !gf.ok {
		return false
	}
	key := g.Pkg().Name() + "." + g.Name()
	if u.globalsUsed == nil {
		u.globalsUsed = map[string]bool{}
	}
	if !u.globalsUsed[key] {
		u.globalsUsed[key] = true
		o := u.oblige("global", u.Name, "true", "true", posStr(u.W.Fset, g.Pos()), key+" is written once, by its package initialiser, with a value that is never nil, and its address is not taken")
		o.Status, o.Solver = "proved", "census"
	}
	return true
}

func nonNilTerm(t string, typ types.Type) string {
	if _, ok := typ.Underlying().(*types.Interface); ok {
		return "(not (= (if.typ " + t + ") 0))"
	}
	return "(not (= " + t + " 0))"
}

// initOnceConst: a package-level variable of basic type that is written exactly once, by its
// package initialiser, with a compile-time constant, and whose address is never taken: every load
// yields that constant (e.g. `var appleDayLength = 86400 * time.Second`).
func (w *World) initOnceConst(g *types.Var) globalFact {
	if w.globalConsts == nil {
		w.globalConsts = map[*types.Var]globalFact{}
	}
	if gf, ok := w.globalConsts[g]; ok {
		return gf
	}
	gf := w.computeInitOnceConst(g)
	w.globalConsts[g] = gf
	return gf
}

func (w *World) computeInitOnceConst(g *types.Var) globalFact {
	b, ok := g.Type().Underlying().(*types.Basic)
	if !ok || b.Info()&(types.IsInteger|types.IsBoolean|types.IsString) == 0 || g.Pkg() == nil {
		return globalFact{ok: false, why: "not of basic type"}
	}
	sp := w.ssaPkg(g.Pkg().Path())
	if sp == nil {
		return globalFact{ok: false, why: "package not loaded"}
	}
	sg, _ := sp.Members[g.Name()].(*ssa.Global)
	if sg == nil {
		return globalFact{ok: false, why: "no ssa global"}
	}
	var val *ssa.Const
	stores := 0
	fns := allFunctions(w)
	if in := sp.Func("init"); in != nil {
		fns[in] = true
	}
	for fn := range fns {
		if fn.Blocks == nil {
			continue
		}
		for _, b := range fn.Blocks {
			for _, in := range b.Instrs {
				uses := false
				for _, op := range in.Operands(nil) {
					if op != nil && *op == ssa.Value(sg) {
						uses = true
					}
				}
				if !uses {
					continue
				}
				switch x := in.(type) {
				case *ssa.UnOp:
					if x.Op != token.MUL {
						return globalFact{ok: false, why: "address used by " + fn.String()}
					}
				case *ssa.Store:
					c, isConst := x.Val.(*ssa.Const)
					if x.Addr != ssa.Value(sg) || fn.Pkg != sp || fn.Name() != "init" || fn.Synthetic == "" || !isConst {
						return globalFact{ok: false, why: "written by " + fn.String()}
					}
					val = c
					stores++
				default:
					return globalFact{ok: false, why: "address escapes in " + fn.String()}
				}
			}
		}
	}
	if stores != 1 || val == nil {
		return globalFact{ok: false, why: "not initialised exactly once with a constant"}
	}
	return globalFact{ok: true, val: val}
}

// globalConst records (once per unit and global) the census obligation and returns the constant
// every load of g yields.
func (u *Unit) globalConst(g *types.Var) (*ssa.Const, bool) {
	gf := u.W.initOnceConst(g)
	if !gf.ok {
		return nil, false
	}
	key := "const:" + g.Pkg().Name() + "." + g.Name()
	if u.globalsUsed == nil {
		u.globalsUsed = map[string]bool{}
	}
	if !u.globalsUsed[key] {
		u.globalsUsed[key] = true
		o := u.oblige("global", u.Name, "true", "true", posStr(u.W.Fset, g.Pos()), g.Pkg().Name()+"."+g.Name()+" is written once, by its package initialiser, with the constant "+gf.val.Value.ExactString()+", and its address is not taken")
		o.Status, o.Solver = "proved", "census"
	}
	return gf.val, true
}
