package main

// SMT layer: sorts, declarations, term helpers. Terms are SMT-LIB 2 strings.

import (
	"fmt"
	"math/big"
	"net"
	"go/types"
	"sort"
	"strings"
)

// Decls collects declarations (sorts, datatypes, uninterpreted functions,
// string literals) in dependency order. One Decls per verification unit
// (function); it is printed at the top of every query of that unit.
type Decls struct {
	order   []string          // names in declaration order
	text    map[string]string // name -> declaration text
	sorts   map[string]string // go type string -> sort name
	strLits map[string]string // literal -> constant name
	strList []string
	tyIDs   map[string]int // dynamic type ids
	tyList  []types.Type
	axioms  []string // global axioms (asserted after declarations)
	seenAx  map[string]bool
	structs map[string]*types.Struct // sort name -> struct
	structT map[string]types.Type
	implIfaces map[int]types.Type
}

func NewDecls() *Decls {
	d := &Decls{text: map[string]string{}, sorts: map[string]string{}, strLits: map[string]string{}, tyIDs: map[string]int{}, seenAx: map[string]bool{}, structs: map[string]*types.Struct{}, structT: map[string]types.Type{}}
	d.raw("Str", "(declare-sort Str 0)")
	d.raw("Float", "(declare-sort Float 0)")
	d.raw("Opaque", "(declare-sort Opaque 0)")
	d.raw("Slice", "(declare-datatypes ((Slice 0)) (((mk-slice (sl.base Int) (sl.off Int) (sl.len Int)))))")
	d.raw("sl.at", "(declare-fun sl.at (Slice Int) Int)")
	d.axiom("(forall ((s Slice) (i Int)) (! (= (sl.at s i) (+ (sl.off s) i)) :pattern ((sl.at s i))))")
	d.raw("Iface", "(declare-datatypes ((Iface 0)) (((mk-iface (if.typ Int) (if.val Int)))))")
	d.raw("gs.len", "(declare-fun gs.len (Str) Int)")
	d.raw("gs.at", "(declare-fun gs.at (Str Int) Int)")
	d.raw("gs.cat", "(declare-fun gs.cat (Str Str) Str)")
	d.raw("gs.lt", "(declare-fun gs.lt (Str Str) Bool)")
	d.raw("gs.sub", "(declare-fun gs.sub (Str Int Int) Str)")
	d.raw("gs.empty", "(declare-const gs.empty Str)")
	d.axiom("(= (gs.len gs.empty) 0)")
	d.axiom("(forall ((s Str)) (! (>= (gs.len s) 0) :pattern ((gs.len s))))")
	d.axiom("(forall ((s Str)) (! (=> (= (gs.len s) 0) (= s gs.empty)) :pattern ((gs.len s))))")
	return d
}

func (d *Decls) raw(name, text string) {
	if _, ok := d.text[name]; ok {
		return
	}
	d.text[name] = text
	d.order = append(d.order, name)
}

func (d *Decls) axiom(a string) {
	if d.seenAx[a] {
		return
	}
	d.seenAx[a] = true
	d.axioms = append(d.axioms, a)
}

// Fun declares an uninterpreted function once.
func (d *Decls) Fun(name string, args []string, ret string) string {
	q := sym(name)
	d.raw("fun:"+name, fmt.Sprintf("(declare-fun %s (%s) %s)", q, strings.Join(args, " "), ret))
	return q
}

func (d *Decls) Const(name, sort string) string {
	q := sym(name)
	d.raw("fun:"+name, fmt.Sprintf("(declare-const %s %s)", q, sort))
	return q
}

func (d *Decls) Print(sb *strings.Builder) {
	for _, n := range d.order {
		sb.WriteString(d.text[n])
		sb.WriteByte('\n')
	}
	// string literals are pairwise distinct and have known lengths
	if len(d.strList) > 1 {
		sb.WriteString("(assert (distinct")
		for _, l := range d.strList {
			sb.WriteString(" " + d.strLits[l])
		}
		sb.WriteString("))\n")
	}
	for _, a := range d.axioms {
		sb.WriteString("(assert " + a + ")\n")
	}
	// interface satisfaction of every dynamic type that occurs
	var iids []int
	for iid := range d.implIfaces {
		iids = append(iids, iid)
	}
	sort.Ints(iids)
	for _, iid := range iids {
		it, ok := d.implIfaces[iid].Underlying().(*types.Interface)
		if !ok {
			continue
		}
		for i, t := range d.tyList {
			if types.IsInterface(t) {
				continue
			}
			v := "false"
			if types.Implements(t, it) {
				v = "true"
			}
			fmt.Fprintf(sb, "(assert (= (implements %d %d) %s))\n", i+1, iid, v)
		}
	}
}

// sym quotes a name as an SMT symbol if needed.
func sym(s string) string {
	simple := true
	for i, c := range s {
		if !(c >= 'a' && c <= 'z' || c >= 'A' && c <= 'Z' || c == '_' || c == '.' || c == '$' || c == '!' || (i > 0 && c >= '0' && c <= '9')) {
			simple = false
			break
		}
	}
	if simple && s != "" {
		return s
	}
	s = strings.ReplaceAll(s, "|", "¦")
	s = strings.ReplaceAll(s, "\\", "/")
	return "|" + s + "|"
}

func shortType(t types.Type) string {
	return types.TypeString(t, func(p *types.Package) string { return p.Name() })
}

// StrLit returns the constant for a Go string literal.
func (d *Decls) StrLit(s string) string {
	if s == "" {
		return "gs.empty"
	}
	if c, ok := d.strLits[s]; ok {
		return c
	}
	name := fmt.Sprintf("lit%d:%s", len(d.strList), clip(s, 40))
	q := d.Const(name, "Str")
	d.strLits[s] = q
	d.strList = append(d.strList, s)
	d.axiom(fmt.Sprintf("(= (gs.len %s) %d)", q, len(s)))
	// literal facts evaluated by the generator (with Go's own library; trusted)
	for _, name := range sortedKeys(literalPreds) {
		d.Fun("spec:"+name, []string{"Str"}, "Bool")
		d.axiom(fmt.Sprintf("(= (%s %s) %v)", sym("spec:"+name), q, literalPreds[name](s)))
	}
	if len(s) <= 64 {
		for i := 0; i < len(s); i++ {
			d.axiom(fmt.Sprintf("(= (gs.at %s %d) %d)", q, i, s[i]))
		}
	}
	return q
}

func clip(s string, n int) string {
	b := []byte{}
	for i := 0; i < len(s) && i < n; i++ {
		c := s[i]
		if c >= 'a' && c <= 'z' || c >= 'A' && c <= 'Z' || c >= '0' && c <= '9' || c == '_' || c == '.' || c == '-' {
			b = append(b, c)
		} else {
			b = append(b, '_')
		}
	}
	return string(b)
}

// TypeID returns a small positive integer identifying a dynamic type.
func (d *Decls) TypeID(t types.Type) int {
	k := types.TypeString(t, nil)
	if id, ok := d.tyIDs[k]; ok {
		return id
	}
	id := len(d.tyIDs) + 1
	d.tyIDs[k] = id
	d.tyList = append(d.tyList, t)
	return id
}

// SortOf maps a Go type to an SMT sort, declaring datatypes on demand.
func (d *Decls) SortOf(t types.Type) string {
	key := types.TypeString(t, nil)
	if s, ok := d.sorts[key]; ok {
		return s
	}
	s := d.sortOf(t)
	d.sorts[key] = s
	return s
}

func (d *Decls) sortOf(t types.Type) string {
	switch u := t.Underlying().(type) {
	case *types.Basic:
		switch {
		case u.Info()&types.IsBoolean != 0:
			return "Bool"
		case u.Info()&types.IsInteger != 0:
			return "Int"
		case u.Info()&types.IsString != 0:
			return "Str"
		case u.Info()&types.IsFloat != 0, u.Info()&types.IsComplex != 0:
			return "Float"
		case u.Kind() == types.UnsafePointer:
			return "Int"
		case u.Kind() == types.UntypedNil:
			return "Int"
		}
		return "Opaque"
	case *types.Pointer, *types.Map, *types.Chan, *types.Signature:
		return "Int"
	case *types.Slice:
		return "Slice"
	case *types.Interface:
		return "Iface"
	case *types.Array:
		return fmt.Sprintf("(Array Int %s)", d.SortOf(u.Elem()))
	case *types.Struct:
		name := "S:" + shortType(t)
		if _, isNamed := t.(*types.Named); !isNamed {
			if _, isAlias := t.(*types.Alias); !isAlias {
				name = fmt.Sprintf("S:anon%d", len(d.structs))
			}
		}
		q := sym(name)
		// reserve (no by-value recursion possible in Go)
		d.sorts[types.TypeString(t, nil)] = q
		var fs []string
		for i := 0; i < u.NumFields(); i++ {
			fs = append(fs, fmt.Sprintf("(%s %s)", d.fieldSel(name, u, i), d.SortOf(u.Field(i).Type())))
		}
		d.structs[q] = u
		d.structT[q] = t
		if len(fs) == 0 {
			d.raw(name, fmt.Sprintf("(declare-datatypes ((%s 0)) (((%s))))", q, sym("mk:"+name)))
		} else {
			d.raw(name, fmt.Sprintf("(declare-datatypes ((%s 0)) (((%s %s))))", q, sym("mk:"+name), strings.Join(fs, " ")))
		}
		return q
	case *types.Tuple:
		return "Opaque"
	case *types.TypeParam:
		return "Opaque"
	}
	return "Opaque"
}

func (d *Decls) fieldSel(structName string, u *types.Struct, i int) string {
	return sym(structName + "." + u.Field(i).Name())
}

// structInfo returns constructor and selector names of a struct sort.
func (d *Decls) structCtor(t types.Type) (ctor string, sels []string, st *types.Struct) {
	s := d.SortOf(t)
	st = t.Underlying().(*types.Struct)
	name := strings.Trim(s, "|")
	ctor = sym("mk:" + name)
	for i := 0; i < st.NumFields(); i++ {
		sels = append(sels, d.fieldSel(name, st, i))
	}
	return
}

// Zero returns the zero value term of a Go type.
func (d *Decls) Zero(t types.Type) string {
	switch u := t.Underlying().(type) {
	case *types.Basic:
		switch {
		case u.Info()&types.IsBoolean != 0:
			return "false"
		case u.Info()&types.IsInteger != 0:
			return "0"
		case u.Info()&types.IsString != 0:
			return "gs.empty"
		case u.Info()&types.IsFloat != 0, u.Info()&types.IsComplex != 0:
			return d.Const("float.zero", "Float")
		}
		return "0"
	case *types.Pointer, *types.Map, *types.Chan, *types.Signature:
		return "0"
	case *types.Slice:
		return "(mk-slice 0 0 0)"
	case *types.Interface:
		return "(mk-iface 0 0)"
	case *types.Array:
		return d.ConstArray("Int", d.SortOf(u.Elem()), d.Zero(u.Elem()))
	case *types.Struct:
		ctor, _, st := d.structCtor(t)
		if st.NumFields() == 0 {
			return ctor
		}
		parts := []string{ctor}
		for i := 0; i < st.NumFields(); i++ {
			parts = append(parts, d.Zero(st.Field(i).Type()))
		}
		return "(" + strings.Join(parts, " ") + ")"
	}
	return d.Const("opaque.zero", "Opaque")
}

// intRange returns (lo, hi, ok) for sized integer types.
func intRange(t types.Type) (string, string, bool) {
	b, ok := t.Underlying().(*types.Basic)
	if !ok || b.Info()&types.IsInteger == 0 {
		return "", "", false
	}
	switch b.Kind() {
	case types.Int8:
		return "(- 128)", "127", true
	case types.Int16:
		return "(- 32768)", "32767", true
	case types.Int32:
		return "(- 2147483648)", "2147483647", true
	case types.Int, types.Int64:
		return "(- 9223372036854775808)", "9223372036854775807", true
	case types.Uint8:
		return "0", "255", true
	case types.Uint16:
		return "0", "65535", true
	case types.Uint32:
		return "0", "4294967295", true
	case types.Uint, types.Uint64, types.Uintptr:
		return "0", "18446744073709551615", true
	}
	return "", "", false
}

func intBits(t types.Type) (bits int, signed bool) {
	b, ok := t.Underlying().(*types.Basic)
	if !ok {
		return 0, false
	}
	switch b.Kind() {
	case types.Int8:
		return 8, true
	case types.Int16:
		return 16, true
	case types.Int32:
		return 32, true
	case types.Int, types.Int64:
		return 64, true
	case types.Uint8:
		return 8, false
	case types.Uint16:
		return 16, false
	case types.Uint32:
		return 32, false
	case types.Uint, types.Uint64, types.Uintptr:
		return 64, false
	}
	return 0, false
}

func pow2(n int) string {
	return new(big.Int).Lsh(big.NewInt(1), uint(n)).String()
}

func intLit(s string) string {
	if strings.HasPrefix(s, "-") {
		return "(- " + s[1:] + ")"
	}
	return s
}

// term helpers
func and(ts ...string) string {
	var xs []string
	for _, t := range ts {
		if t == "true" || t == "" {
			continue
		}
		if t == "false" {
			return "false"
		}
		xs = append(xs, t)
	}
	switch len(xs) {
	case 0:
		return "true"
	case 1:
		return xs[0]
	}
	return "(and " + strings.Join(xs, " ") + ")"
}

func or(ts ...string) string {
	var xs []string
	for _, t := range ts {
		if t == "false" || t == "" {
			continue
		}
		if t == "true" {
			return "true"
		}
		xs = append(xs, t)
	}
	switch len(xs) {
	case 0:
		return "false"
	case 1:
		return xs[0]
	}
	return "(or " + strings.Join(xs, " ") + ")"
}

func not(t string) string {
	switch t {
	case "true":
		return "false"
	case "false":
		return "true"
	}
	if strings.HasPrefix(t, "(not ") && balanced(t[5:len(t)-1]) {
		return t[5 : len(t)-1]
	}
	return "(not " + t + ")"
}

func balanced(s string) bool {
	d := 0
	inq := false
	for i, c := range s {
		if c == '|' {
			inq = !inq
		}
		if inq {
			continue
		}
		if c == '(' {
			d++
		}
		if c == ')' {
			d--
			if d < 0 {
				return false
			}
			if d == 0 && i != len(s)-1 {
				return false
			}
		}
		if c == ' ' && d == 0 {
			return false
		}
	}
	return d == 0
}

func implies(a, b string) string {
	if a == "true" {
		return b
	}
	if b == "true" {
		return "true"
	}
	return "(=> " + a + " " + b + ")"
}
func eq(a, b string) string      { return "(= " + a + " " + b + ")" }
func ite(c, a, b string) string  { return "(ite " + c + " " + a + " " + b + ")" }
func sel(a, i string) string     { return "(select " + a + " " + i + ")" }
func sto(a, i, v string) string  { return "(store " + a + " " + i + " " + v + ")" }
func app(f string, args ...string) string {
	if len(args) == 0 {
		return f
	}
	return "(" + f + " " + strings.Join(args, " ") + ")"
}

func sortedKeys[V any](m map[string]V) []string {
	ks := make([]string, 0, len(m))
	for k := range m {
		ks = append(ks, k)
	}
	sort.Strings(ks)
	return ks
}


// ConstArray returns an array term whose every element is v. cvc5 accepts (as const ...)
// only for value terms, so other defaults get a declared array with a quantified axiom.
func (d *Decls) ConstArray(idxSort, elemSort, v string) string {
	isValue := true
	for _, tok := range strings.FieldsFunc(v, func(r rune) bool { return r == '(' || r == ')' || r == ' ' }) {
		switch {
		case tok == "true", tok == "false", tok == "mk-slice", tok == "mk-iface", tok == "-":
		case tok[0] >= '0' && tok[0] <= '9':
		default:
			isValue = false
		}
	}
	if isValue {
		return fmt.Sprintf("((as const (Array %s %s)) %s)", idxSort, elemSort, v)
	}
	key := "constarr:" + idxSort + ":" + elemSort + ":" + v
	if n, ok := d.sorts[key]; ok {
		return n
	}
	n := d.Const(fmt.Sprintf("constarr%d", len(d.sorts)), fmt.Sprintf("(Array %s %s)", idxSort, elemSort))
	d.sorts[key] = n
	d.axiom(fmt.Sprintf("(forall ((i %s)) (! (= (select %s i) %s) :pattern ((select %s i))))", idxSort, n, v, n))
	return n
}


// plainASCII: printable ASCII that encoding/json writes verbatim between quotes.
func plainASCII(s string) bool {
	for i := 0; i < len(s); i++ {
		c := s[i]
		if c < 0x20 || c > 0x7e || c == '"' || c == '\\' || c == '<' || c == '>' || c == '&' {
			return false
		}
	}
	return true
}


// literalPreds: specification predicates on strings that the generator evaluates on
// every string literal occurring in a unit (they stay uninterpreted elsewhere).
var literalPreds = map[string]func(string) bool{
	"plainASCII": plainASCII,
	"cidrOK": func(s string) bool {
		_, _, err := net.ParseCIDR(s)
		return err == nil
	},
}
