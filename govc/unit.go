package main

// Unit: one verification unit (a function under contract, or a lemma). It owns a
// linear SMT script (declarations are kept apart in Decls); every obligation is
// decided against the script prefix that precedes it.

import (
	"fmt"
	"go/token"
	"go/types"
	"strings"

	"golang.org/x/tools/go/ssa"
)

type Obligation struct {
	Name    string
	Prop    string
	Kind    string
	Func    string
	Pos     int    // script prefix length
	Guard   string // path condition
	Goal    string
	Cover   bool // must be SAT (vacuity guard)
	SpecErr string // the clause behind this obligation cannot be evaluated against the current source
	Src     string
	Unit    *Unit
	Note    string
	Bounded string
	// result
	Status  string // proved | refuted | unknown | error
	Solver  string
	Time    float64
	Model   string
	SMTSize int
	Output  string
	statusTerm string
}

type Val struct {
	T   string // SMT term
	Typ types.Type
	Tup []Val // tuple components
	Loc *Loc  // interior pointer (FieldAddr / IndexAddr result), or the location an lvalue was read from
	Addr bool // Loc designates the pointee: this value IS the address of Loc (not a value read from it)
	Fn  *ssa.Function
	Clo *ssa.MakeClosure
	FieldSrc *types.Var // value was loaded from this struct field (for field contracts)
}

// Loc is an lvalue: a heap root plus a projection path.
type Loc struct {
	Arr   string     // heap array name
	Sort  string     // sort of the array's range
	Key   string     // index term (ref), "" for scalars (globals)
	Key2  string     // second index (slice element index), "" if none
	Path  []pathStep // projections inside the stored value
	Typ   types.Type // type of the designated location
	Local bool       // root ref was allocated in this unit and has not escaped
}

type pathStep struct {
	Field int        // struct field index, or -1
	Idx   string     // array index term when Field == -1
	T     types.Type // type of the aggregate being projected
}

// Heap is a lazily resolved, versioned store.
type Heap struct {
	arr  map[string]string
	link *Link
}

type Link struct {
	kind    string // entry | havoc | freshonly | merge | loop
	parent  *Heap
	top     string   // freshonly: frame boundary (value of $top before the call)
	keep    []string // havoc: refs whose contents survive
	mod     map[string]bool // loop: arrays modified in the loop (nil = all)
	preds   []*Heap  // merge
	conds   []string // merge
	derived map[string]string
	id      int
	frame   *frameSpec // loop: frame of the function under contract (cells outside it keep their contents)
}

type Unit struct {
	W      *World
	D      *Decls
	Name   string // display name of the function
	Prop   string
	script []string
	obls   []*Obligation
	nfresh int
	nlink  int
	arrSort map[string]string
	notes   map[string]bool // abstractions / assumptions used
	trusted map[string]bool
	ordinals map[string]int
	inexact bool // some construct was abstracted (havoc); functional claims are still sound, refutations may be spurious
	safety  bool // generate panic-freedom obligations
	overflow bool
	bv      bool
	sweep   bool // schematic mode: inline helpers with loops, abstract what is unknown
	addrs   map[string]string
	top0    string // $top at entry of the unit's function
	axHeap  *Heap
	modelTerms []string
	globalsUsed map[string]bool
	ncalls int
	cardDone map[string]bool
	scratch *Heap
	tiDone map[string]bool
	closure bool // verified only because another unit of the property applies this contract
	pkgInvAt map[*Heap]bool // heaps at which the package invariants have been recalled
	fn      *ssa.Function // the function under contract (nil for lemmas, sweeps, census units)
	structKeys bool // summaries and abstracted calls are named by the structure of the code (C20)
}

func NewUnit(w *World, name, prop string) *Unit {
	return &Unit{W: w, D: NewDecls(), Name: name, Prop: prop, arrSort: map[string]string{}, notes: map[string]bool{}, trusted: map[string]bool{}, ordinals: map[string]int{}}
}

func (u *Unit) emit(s string) { u.script = append(u.script, s) }

func (u *Unit) fresh(prefix, sort string) string {
	u.nfresh++
	n := sym(fmt.Sprintf("%s!%d", prefix, u.nfresh))
	u.emit(fmt.Sprintf("(declare-const %s %s)", n, sort))
	return n
}

// define introduces a named abbreviation for a term.
func (u *Unit) define(prefix, sort, term string) string {
	if len(term) < 24 && !strings.Contains(term, " ") {
		return term
	}
	u.nfresh++
	n := sym(fmt.Sprintf("%s!%d", prefix, u.nfresh))
	u.emit(fmt.Sprintf("(define-fun %s () %s %s)", n, sort, term))
	return n
}

func (u *Unit) assume(guard, fact string) {
	if fact == "true" {
		return
	}
	u.emit("(assert " + implies(guard, fact) + ")")
}

func (u *Unit) note(s string) { u.notes[s] = true }

// softFail: a specification clause that is only an ASSUMPTION here (a callee's postcondition, a
// package invariant) cannot be evaluated against the current source. The assumption is dropped -
// sound - and recorded; obligations that needed it fail on their own.
func (u *Unit) softFail(format string, a ...any) {
	msg := fmt.Sprintf(format, a...)
	u.note("assumption dropped (clause does not fit the current source): " + msg)
	u.W.droppedMu.Lock()
	u.W.dropped[msg] = true
	u.W.droppedMu.Unlock()
}

func (u *Unit) oblige(kind, fn, guard, goal, src, note string) *Obligation {
	key := fn + "/" + kind
	u.ordinals[key]++
	name := fmt.Sprintf("%s/%s/%s#%d", u.Prop, fn, kind, u.ordinals[key])
	o := &Obligation{Name: name, Prop: u.Prop, Kind: kind, Func: fn, Pos: len(u.script), Guard: guard, Goal: goal, Src: src, Unit: u, Note: note}
	u.obls = append(u.obls, o)
	return o
}

// ---------- heap ----------

func (u *Unit) newHeap(l *Link) *Heap {
	u.nlink++
	l.id = u.nlink
	l.derived = map[string]string{}
	return &Heap{arr: map[string]string{}, link: l}
}

func (h *Heap) clone() *Heap {
	m := make(map[string]string, len(h.arr))
	for k, v := range h.arr {
		m[k] = v
	}
	return &Heap{arr: m, link: h.link}
}

func (u *Unit) declArr(name, sort string) {
	if old, ok := u.arrSort[name]; ok {
		if old != sort {
			panic(fmt.Sprintf("heap array %s declared with sorts %s and %s", name, old, sort))
		}
		return
	}
	u.arrSort[name] = sort
}

// get resolves the current version of a heap array.
func (u *Unit) hget(h *Heap, name string) string {
	if t, ok := h.arr[name]; ok {
		return t
	}
	t := u.derive(h.link, name)
	h.arr[name] = t
	return t
}

func (u *Unit) derive(l *Link, name string) string {
	if t, ok := l.derived[name]; ok {
		return t
	}
	sort, ok := u.arrSort[name]
	if !ok {
		panic("undeclared heap array " + name)
	}
	var t string
	switch l.kind {
	case "entry":
		t = u.D.Const(name+"@0", sort)
		if name == "$top" {
			u.D.axiom("(>= " + t + " 0)")
		}
		if strings.HasPrefix(name, "$g.n") || name == "$g.clock" || strings.HasPrefix(name, "$g.t") {
			u.D.axiom("(= " + t + " 0)")
		}
		if name == "$g.panicked" {
			u.D.axiom("(= " + t + " false)")
		}
	case "havoc":
		t = u.fresh(name+"@h", sort)
		p := u.hget(l.parent, name)
		if name == "$top" {
			u.emit("(assert (>= " + t + " " + p + "))")
		} else if strings.HasPrefix(name, "$g.") {
			// ghost state is never changed by havoc
			t = p
		} else if strings.HasPrefix(sort, "(Array Int") {
			for _, r := range l.keep {
				u.emit("(assert (= " + sel(t, r) + " " + sel(p, r) + "))")
			}
		}
	case "freshonly":
		// The callee writes only memory it allocates itself. Cells above the allocation
		// mark are never constrained before they are allocated, so "allocate and
		// initialise" is modelled as revealing their (so far arbitrary) contents: every
		// array keeps its identity and only $top advances. With an explicit frame
		// boundary below the current mark (\after(x)) the arrays really change there.
		p := u.hget(l.parent, name)
		if name == "$top" {
			t = u.fresh(name+"@f", sort)
			u.emit("(assert (>= " + t + " " + p + "))")
		} else if strings.HasPrefix(name, "$") || l.top == "" {
			t = p
		} else if strings.HasPrefix(sort, "(Array Int") {
			t = u.fresh(name+"@f", sort)
			u.emit(fmt.Sprintf("(assert (forall ((r Int)) (! (=> (<= r %s) (= (select %s r) (select %s r))) :pattern ((select %s r)))))", l.top, t, p, t))
		} else {
			t = p
		}
	case "merge":
		var ts []string
		same := true
		for _, ph := range l.preds {
			x := u.hget(ph, name)
			if len(ts) > 0 && x != ts[0] {
				same = false
			}
			ts = append(ts, x)
		}
		if same {
			t = ts[0]
		} else {
			term := ts[len(ts)-1]
			for i := len(ts) - 2; i >= 0; i-- {
				term = ite(l.conds[i], ts[i], term)
			}
			u.nfresh++
			t = sym(fmt.Sprintf("%s@m%d", name, u.nfresh))
			u.emit(fmt.Sprintf("(define-fun %s () %s %s)", t, sort, term))
		}
	case "loop":
		p := u.hget(l.parent, name)
		explicit := l.mod == nil || l.mod[name]
		star := l.mod != nil && l.mod["*"]
		switch {
		case !explicit && !star:
			t = p
		case !explicit && strings.HasPrefix(name, "$g."):
			t = p
		default:
			t = u.fresh(name+"@l", sort)
			if name == "$top" {
				u.emit("(assert (>= " + t + " " + p + "))")
			}
			if l.frame != nil && !l.frame.all && strings.HasPrefix(sort, "(Array Int") && framePreservable(name) {
				// Every store and callee effect in the loop body carries a frame obligation of the
				// function under contract, so an iteration changes a cell allocated before the call
				// only if the assigns clause names it: all other old cells keep their contents.
				fs := l.frame
				guard := "(<= r " + fs.top0 + ")"
				for _, a := range fs.afters {
					guard = and(guard, "(< r "+a+")")
				}
				for _, fl := range fs.locs {
					if (fl.Arr == name || fl.Arr == "") && fl.Key != "" {
						guard = and(guard, "(not (= r "+fl.Key+"))")
					}
				}
				u.emit(fmt.Sprintf("(assert (forall ((r Int)) (! (=> %s (= (select %s r) (select %s r))) :pattern ((select %s r)))))", guard, t, p, t))
			}
			if !explicit && strings.HasPrefix(sort, "(Array Int") {
				// havoced only because of calls with unknown effects: objects allocated by this
				// activation that never escaped keep their contents
				for _, r := range l.keep {
					u.emit("(assert (= " + sel(t, r) + " " + sel(p, r) + "))")
				}
			}
		}
	default:
		panic("bad link " + l.kind)
	}
	l.derived[name] = t
	return t
}

func (u *Unit) hset(h *Heap, name, term string) {
	sort := u.arrSort[name]
	h.arr[name] = u.define(name+"@s", sort, term)
}

// array naming
func (u *Unit) fieldArr(st types.Type, i int) (string, string) {
	s := st.Underlying().(*types.Struct)
	name := "F:" + shortType(st) + "." + s.Field(i).Name()
	sort := "(Array Int " + u.D.SortOf(s.Field(i).Type()) + ")"
	u.declArr(name, sort)
	return name, sort
}

func (u *Unit) cellArr(t types.Type) (string, string) {
	name := "P:" + shortType(t)
	sort := "(Array Int " + u.D.SortOf(t) + ")"
	u.declArr(name, sort)
	return name, sort
}

func (u *Unit) elemArr(t types.Type) (string, string) {
	name := "A:" + shortType(t)
	sort := "(Array Int (Array Int " + u.D.SortOf(t) + "))"
	u.declArr(name, sort)
	return name, sort
}

func (u *Unit) mapArrs(m *types.Map) (dom, val string) {
	k := u.D.SortOf(m.Key())
	v := u.D.SortOf(m.Elem())
	dom = "MD:" + shortType(m)
	val = "MV:" + shortType(m)
	u.declArr(dom, "(Array Int (Array "+k+" Bool))")
	u.declArr(val, "(Array Int (Array "+k+" "+v+"))")
	return
}

func (u *Unit) globalCell(g *types.Var) (string, string) {
	name := "$G:" + g.Pkg().Name() + "." + g.Name()
	sort := u.D.SortOf(g.Type())
	u.declArr(name, sort)
	return name, sort
}

func (u *Unit) scalar(name, sort string) string {
	u.declArr(name, sort)
	return name
}

// load reads the value designated by loc in heap h.
func (u *Unit) load(h *Heap, l *Loc) string {
	t := u.hget(h, l.Arr)
	if l.Key != "" {
		t = sel(t, l.Key)
	}
	if l.Key2 != "" {
		t = sel(t, l.Key2)
	}
	for _, st := range l.Path {
		if st.Field >= 0 {
			_, sels, _ := u.D.structCtor(st.T)
			t = app(sels[st.Field], t)
		} else {
			t = sel(t, st.Idx)
		}
	}
	return t
}

// store writes v at loc.
func (u *Unit) store(h *Heap, l *Loc, v string) {
	root := u.hget(h, l.Arr)
	cur := root
	if l.Key != "" {
		cur = sel(cur, l.Key)
	}
	if l.Key2 != "" {
		cur = sel(cur, l.Key2)
	}
	nv := u.updatePath(cur, l.Path, v)
	if l.Key2 != "" {
		nv = sto(sel(root, l.Key), l.Key2, nv)
	}
	if l.Key != "" {
		nv = sto(root, l.Key, nv)
	}
	u.hset(h, l.Arr, nv)
}

func (u *Unit) updatePath(cur string, path []pathStep, v string) string {
	if len(path) == 0 {
		return v
	}
	st := path[0]
	if st.Field >= 0 {
		ctor, sels, s := u.D.structCtor(st.T)
		parts := []string{ctor}
		for i := 0; i < s.NumFields(); i++ {
			if i == st.Field {
				parts = append(parts, u.updatePath(app(sels[i], cur), path[1:], v))
			} else {
				parts = append(parts, app(sels[i], cur))
			}
		}
		return "(" + strings.Join(parts, " ") + ")"
	}
	return sto(cur, st.Idx, u.updatePath(sel(cur, st.Idx), path[1:], v))
}

// loadStruct reads a whole struct through a ref.
func (u *Unit) loadStruct(h *Heap, ref string, t types.Type) string {
	ctor, _, s := u.D.structCtor(t)
	if s.NumFields() == 0 {
		return ctor
	}
	parts := []string{ctor}
	for i := 0; i < s.NumFields(); i++ {
		a, _ := u.fieldArr(t, i)
		parts = append(parts, sel(u.hget(h, a), ref))
	}
	return "(" + strings.Join(parts, " ") + ")"
}

func (u *Unit) storeStruct(h *Heap, ref string, t types.Type, v string) {
	_, sels, s := u.D.structCtor(t)
	vv := u.define("sv", u.D.SortOf(t), v)
	for i := 0; i < s.NumFields(); i++ {
		a, _ := u.fieldArr(t, i)
		u.hset(h, a, sto(u.hget(h, a), ref, app(sels[i], vv)))
	}
}

// alloc returns a fresh non-nil reference.
func (u *Unit) alloc(h *Heap, what string) string {
	u.scalar("$top", "Int")
	top := u.hget(h, "$top")
	r := u.define("ref."+what, "Int", "(+ "+top+" 1)")
	u.hset(h, "$top", r)
	return r
}

func (u *Unit) top(h *Heap) string {
	u.scalar("$top", "Int")
	return u.hget(h, "$top")
}

func posStr(fset *token.FileSet, p token.Pos) string {
	if !p.IsValid() {
		return ""
	}
	ps := fset.Position(p)
	f := ps.Filename
	if i := strings.Index(f, "/v3/"); i >= 0 {
		f = f[i+1:]
	}
	return fmt.Sprintf("%s:%d", f, ps.Line)
}


// addrOf gives an interior pointer a symbolic non-nil address (one constant per location).
func (u *Unit) addrOf(l *Loc) string {
	key := fmt.Sprintf("%s|%s|%s|%v", l.Arr, l.Key, l.Key2, l.Path)
	if u.addrs == nil {
		u.addrs = map[string]string{}
	}
	if a, ok := u.addrs[key]; ok {
		return a
	}
	a := u.D.Const(fmt.Sprintf("addr%d", len(u.addrs)), "Int")
	u.D.axiom("(> " + a + " 0)")
	u.addrs[key] = a
	return a
}

// framePreservable: heap arrays indexed by object reference whose cells are written only by
// stores that carry a frame obligation (struct fields, pointer cells, map rows, ghost fields).
// Element rows of slices are excluded: an in-place append writes into spare capacity of an old
// backing array without a frame obligation.
func framePreservable(name string) bool {
	for _, p := range []string{"F:", "MD:", "MV:", "P:", "GF:"} {
		if strings.HasPrefix(name, p) {
			return true
		}
	}
	return false
}

// cardOf: the number of keys of a map domain row. card is uninterpreted; what is known about it is
// stated for each domain term it is applied to: it is non-negative, a domain with a member has at
// least one key, and a domain with no member has none.
func (u *Unit) cardOf(domRow string, key types.Type) string {
	ks := u.D.SortOf(key)
	card := u.D.Fun("card:"+shortType(key), []string{"(Array " + ks + " Bool)"}, "Int")
	if u.cardDone == nil {
		u.cardDone = map[string]bool{}
	}
	if !u.cardDone[domRow] {
		u.cardDone[domRow] = true
		d := u.fresh("carddom", "(Array "+ks+" Bool)")
		u.emit("(assert (= " + d + " " + domRow + "))")
		u.emit(fmt.Sprintf("(assert (>= (%s %s) 0))", card, d))
		u.emit(fmt.Sprintf("(assert (forall ((k %s)) (! (=> (select %s k) (>= (%s %s) 1)) :pattern ((select %s k)))))", ks, d, card, d, d))
		u.emit(fmt.Sprintf("(assert (=> (>= (%s %s) 1) (exists ((k %s)) (select %s k))))", card, d, ks, d))
		return app(card, d)
	}
	return app(card, domRow)
}

// scratchHeap: a heap used only to type-check specification expressions (nothing is asserted about it).
func (u *Unit) scratchHeap() *Heap {
	if u.scratch == nil {
		u.scratch = u.newHeap(&Link{kind: "entry"})
	}
	return u.scratch
}
