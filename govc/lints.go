package main

// Registration census: every call of lint.Register*Lint in the module, with the metadata
// of its composite literal, the constructor, the concrete lint type and its methods.
// Read off the SSA of the current tree; the basis of the schematic obligations
// (C01 status range, C02 safety sweep, C06 severity, C12 registration preconditions).

import (
	"fmt"
	"go/constant"
	"go/token"
	"go/types"
	"path/filepath"
	"sort"
	"strings"
	"time"

	"golang.org/x/tools/go/ssa"
)

type LintInfo struct {
	Name, Description, Citation, Source string
	NameOK, DescOK, SourceOK            bool // constant strings found
	Eff, Ineff                          time.Time
	EffKnown, IneffKnown                bool // value could be evaluated (zero value = not set)
	Kind                                string // cert | crl | ocsp | legacy
	Ctor                                *ssa.Function
	CtorNil                             bool
	Impl                                types.Type // *T
	CheckApplies, Execute, Configure    *ssa.Function
	Site                                string
	File                                string
	Pkg                                 string
	InInit                              bool
	RegFn                               string
	Problems                            []string
}

func (w *World) Lints() []*LintInfo {
	if w.lints != nil {
		return w.lints
	}
	regs := map[string]string{"RegisterCertificateLint": "cert", "RegisterRevocationListLint": "crl", "RegisterOcspResponseLint": "ocsp", "RegisterLint": "legacy"}
	var out []*LintInfo
	for fn := range allFunctions(w) {
		if fn.Blocks == nil {
			continue
		}
		for _, b := range fn.Blocks {
			for _, in := range b.Instrs {
				call, ok := in.(*ssa.Call)
				if !ok {
					continue
				}
				callee := call.Call.StaticCallee()
				if callee == nil || callee.Pkg == nil || callee.Pkg.Pkg.Path() != w.ModPath+"/lint" {
					continue
				}
				kind, ok := regs[callee.Name()]
				if !ok || len(call.Call.Args) != 1 {
					continue
				}
				if fn.Pkg != nil && fn.Pkg.Pkg.Path() == w.ModPath+"/lint" {
					continue // RegisterLint forwarding to RegisterCertificateLint etc.
				}
				li := &LintInfo{Kind: kind, RegFn: callee.Name(), InInit: strings.HasPrefix(fn.Name(), "init#") || fn.Name() == "init"}
				pos := w.Fset.Position(call.Pos())
				li.Site = posStr(w.Fset, call.Pos())
				li.File = filepath.Base(pos.Filename)
				if fn.Pkg != nil {
					li.Pkg = fn.Pkg.Pkg.Path()
				}
				w.fillLint(li, call.Call.Args[0])
				out = append(out, li)
			}
		}
	}
	sort.Slice(out, func(i, j int) bool {
		if out[i].Name != out[j].Name {
			return out[i].Name < out[j].Name
		}
		return out[i].Site < out[j].Site
	})
	w.lints = out
	return out
}

// fieldStores collects, for an allocated composite literal, the values stored per field path.
func fieldStores(al ssa.Value, prefix string, out map[string]ssa.Value) {
	refs := al.Referrers()
	if refs == nil {
		return
	}
	for _, r := range *refs {
		fa, ok := r.(*ssa.FieldAddr)
		if !ok {
			continue
		}
		st := fa.X.Type().Underlying().(*types.Pointer).Elem().Underlying().(*types.Struct)
		name := prefix + st.Field(fa.Field).Name()
		for _, r2 := range *fa.Referrers() {
			if s, ok := r2.(*ssa.Store); ok && s.Addr == fa {
				out[name] = s.Val
			}
		}
		fieldStores(fa, name+".", out)
	}
}

func constString(v ssa.Value) (string, bool) {
	switch x := v.(type) {
	case *ssa.Const:
		if x.Value != nil && x.Value.Kind() == constant.String {
			return constant.StringVal(x.Value), true
		}
	case *ssa.ChangeType:
		return constString(x.X)
	case *ssa.Convert:
		return constString(x.X)
	case *ssa.BinOp:
		if x.Op == token.ADD {
			a, ok1 := constString(x.X)
			b, ok2 := constString(x.Y)
			return a + b, ok1 && ok2
		}
	}
	return "", false
}

func (w *World) fillLint(li *LintInfo, arg ssa.Value) {
	fs := map[string]ssa.Value{}
	fieldStores(arg, "", fs)
	get := func(name string) ssa.Value {
		if v, ok := fs["LintMetadata."+name]; ok {
			return v
		}
		return fs[name]
	}
	if v := get("Name"); v != nil {
		li.Name, li.NameOK = constString(v)
	}
	if v := get("Description"); v != nil {
		li.Description, li.DescOK = constString(v)
		if !li.DescOK {
			// fmt.Sprintf with a constant format that starts with literal text is non-empty
			if c, ok := v.(*ssa.Call); ok {
				if callee := c.Call.StaticCallee(); callee != nil && callee.String() == "fmt.Sprintf" && len(c.Call.Args) > 0 {
					if f, ok := constString(c.Call.Args[0]); ok && f != "" && f[0] != '%' {
						li.Description, li.DescOK = f, true
					}
				}
			}
		}
	}
	if v := get("Citation"); v != nil {
		li.Citation, _ = constString(v)
	}
	if v := get("Source"); v != nil {
		li.Source, li.SourceOK = constString(v)
	}
	li.EffKnown, li.IneffKnown = true, true
	if v := get("EffectiveDate"); v != nil {
		li.Eff, li.EffKnown = w.evalTime(v, 0)
	}
	if v := get("IneffectiveDate"); v != nil {
		li.Ineff, li.IneffKnown = w.evalTime(v, 0)
	}
	ctorV := fs["Lint"]
	if ctorV == nil {
		li.CtorNil = true
		return
	}
	li.Ctor = funcOf(ctorV)
	if li.Ctor == nil || li.Ctor.Blocks == nil {
		if c, ok := ctorV.(*ssa.Const); ok && c.Value == nil {
			li.CtorNil = true
		}
		li.Problems = append(li.Problems, "constructor is not a statically known function")
		return
	}
	// concrete type: the value returned by the constructor
	li.Impl = implOf(li.Ctor, 0)
	if li.Impl == nil {
		li.Problems = append(li.Problems, "constructor does not return a concrete lint value")
		return
	}
	ms := w.Prog.MethodSets.MethodSet(li.Impl)
	for i := 0; i < ms.Len(); i++ {
		sel := ms.At(i)
		switch sel.Obj().Name() {
		case "CheckApplies":
			li.CheckApplies = w.Prog.MethodValue(sel)
		case "Execute":
			li.Execute = w.Prog.MethodValue(sel)
		case "Configure":
			li.Configure = w.Prog.MethodValue(sel)
		}
	}
}

func funcOf(v ssa.Value) *ssa.Function {
	switch x := v.(type) {
	case *ssa.Function:
		return x
	case *ssa.MakeClosure:
		return x.Fn.(*ssa.Function)
	case *ssa.ChangeType:
		return funcOf(x.X)
	}
	return nil
}

// evalTime evaluates a time.Time-valued SSA value built from time.Date of constants or from
// package-level variables initialised that way (Go's own time.Date does the arithmetic).
func (w *World) evalTime(v ssa.Value, depth int) (time.Time, bool) {
	if depth > 5 {
		return time.Time{}, false
	}
	switch x := v.(type) {
	case *ssa.UnOp:
		if g, ok := x.X.(*ssa.Global); ok && x.Op == token.MUL {
			return w.globalTime(g, depth+1)
		}
	case *ssa.Call:
		callee := x.Call.StaticCallee()
		if callee != nil && callee.String() == "time.Date" && len(x.Call.Args) == 8 {
			var n [7]int
			for i := 0; i < 7; i++ {
				c, ok := x.Call.Args[i].(*ssa.Const)
				if !ok || c.Value == nil {
					if cv, ok := x.Call.Args[i].(*ssa.Convert); ok {
						c, ok = cv.X.(*ssa.Const)
						if !ok {
							return time.Time{}, false
						}
					} else {
						return time.Time{}, false
					}
				}
				k, _ := constant.Int64Val(constant.ToInt(c.Value))
				n[i] = int(k)
			}
			// location must be time.UTC
			loc := x.Call.Args[7]
			if u, ok := loc.(*ssa.UnOp); !ok || u.X.String() != "time.UTC" {
				_ = u
				if !strings.Contains(loc.String(), "UTC") {
					return time.Time{}, false
				}
			}
			return time.Date(n[0], time.Month(n[1]), n[2], n[3], n[4], n[5], n[6], time.UTC), true
		}
	case *ssa.Const:
		if x.Value == nil {
			return time.Time{}, true
		}
	}
	return time.Time{}, false
}

func (w *World) globalTime(g *ssa.Global, depth int) (time.Time, bool) {
	if t, ok := w.timeCache[g]; ok {
		return t, true
	}
	pkg := g.Package()
	if pkg == nil {
		return time.Time{}, false
	}
	init := pkg.Func("init")
	if init == nil {
		return time.Time{}, false
	}
	for _, b := range init.Blocks {
		for _, in := range b.Instrs {
			if st, ok := in.(*ssa.Store); ok && st.Addr == g {
				t, ok := w.evalTime(st.Val, depth)
				if ok {
					if w.timeCache == nil {
						w.timeCache = map[*ssa.Global]time.Time{}
					}
					w.timeCache[g] = t
				}
				return t, ok
			}
		}
	}
	return time.Time{}, false
}

func (li *LintInfo) String() string {
	return fmt.Sprintf("%s (%s, %s, %s)", li.Name, li.Kind, li.Source, li.Site)
}


// implOf: the concrete type a constructor returns (following wrapper closures).
func implOf(fn *ssa.Function, depth int) types.Type {
	if fn == nil || fn.Blocks == nil || depth > 3 {
		return nil
	}
	for _, b := range fn.Blocks {
		for _, in := range b.Instrs {
			ret, ok := in.(*ssa.Return)
			if !ok || len(ret.Results) != 1 {
				continue
			}
			v := ret.Results[0]
			for {
				if ci, ok := v.(*ssa.ChangeInterface); ok {
					v = ci.X
					continue
				}
				break
			}
			switch x := v.(type) {
			case *ssa.MakeInterface:
				return x.X.Type()
			case *ssa.Call:
				if t := implOf(x.Call.StaticCallee(), depth+1); t != nil {
					return t
				}
			}
		}
	}
	return nil
}
