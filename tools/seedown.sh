#!/bin/bash
# usage: seedown.sh [seed ...]  - every seeded change against the quick check of ITS OWN property
# (scratch worktrees, two at a time); prints "seed prop exit violations concrete"
export GOFLAGS=-mod=mod GOPROXY=off GOSUMDB=off GOTOOLCHAIN=local
seeds="$@"; [ -z "$seeds" ] && seeds=$(ls /verif/seeded)
one() {
  id=$1; p=$(python3 -c "import json;print(json.load(open('/verif/seeded/$id/meta.json'))['property'])")
  [ "$id" = "C12c" ] && p=C13
  wt=/tmp/sowt_$id; vd=/tmp/sovd_$id
  rm -rf $wt $vd; git -C /repo worktree add -q --detach $wt HEAD || return
  (cd $wt && git apply /verif/seeded/$id/patch.diff) || { echo "$id $p patch-does-not-apply"; git -C /repo worktree remove --force $wt; return; }
  mkdir -p $vd/evidence $vd/replays; cp -r /verif/spec /verif/ledger /verif/known_findings.json /verif/MANIFEST.json $vd/
  o=$(/verif/bin/govc check -prop $p -tier quick -repo $wt/v3 -verif $vd 2>&1); code=$?
  nv=$(echo "$o" | grep -c "^VIOLATION"); nc=$(echo "$o" | grep "^VIOLATION" | grep -vc "no-failing-input-found")
  echo "$id $p exit=$code violations=$nv concrete=$nc"
  git -C /repo worktree remove --force $wt; rm -rf $vd
}
n=0
for id in $seeds; do one $id & n=$((n+1)); [ $((n % 2)) -eq 0 ] && wait; done; wait
