#!/usr/bin/env python3
# Regenerates MANIFEST.json from tools/manifest_src.json (checks) so that it always validates.
import json, subprocess
src = json.load(open('/verif/tools/manifest_src.json'))
hooks = subprocess.run(['git','-C','/repo','log','--format=%h %s'],capture_output=True,text=True).stdout.splitlines()
hook_commits = [l.split()[0] for l in hooks if l.split(' ',1)[1].startswith('verif:')]
checks=[]
for c in src['checks']:
    pid=c['id']
    checks.append({
     "property_id": pid,
     "quick_cmd": f"/verif/check.sh {pid} quick",
     "thorough_cmd": f"/verif/check.sh {pid} thorough",
     "evidence_file": f"/verif/evidence/{pid}.json",
     "replay_cmd_template": "cat {path}",
     "engine": "govc",
     "level_claimed": {"category": c.get('category','proof'), "text": c['text'], "design_ref": f"DESIGN.md §3 {pid}"},
     "level_note": c['note'],
     "technique": c.get('technique', "contract-based deductive verification: VCs generated from go/ssa of the real functions, discharged by SMT (z3 / cvc5)")
    })
m={
 "version":1,
 "setup_cmd":"cd /verif/govc && GOFLAGS=-mod=vendor GOPROXY=off GOSUMDB=off GOTOOLCHAIN=local go build -o /verif/bin/govc .",
 "hooks":{
  "guard":"verif",
  "enable":"go build -tags verif (the tag only adds comment-only contract files zz_verif_contracts.go; govc loads the packages with -tags verif)",
  "baseline_off_cmd":"cd /repo/v3 && GOFLAGS=-mod=mod GOPROXY=off GOSUMDB=off GOTOOLCHAIN=local go test -vet=off -count=1 ./...",
  "source_commits": hook_commits,
  "add_only": True
 },
 "engines":[{"name":"govc","path":"/verif/govc","serves_properties":[c['id'] for c in src['checks']],
   "kind_free_text":"contract-based deductive verifier for Go written for this task: contracts in //@ comment files behind the build tag, weakest-precondition style VC generation over go/ssa (loops cut at invariants, calls by contract, frames, ghost call traces), obligations discharged by z3 4.8.12 / z3 5.1.0 / cvc5 1.0; syntactic back ends (census, frame checker) are labelled as such in the evidence"}],
 "checks":checks,
 "not_applicable": src.get('not_applicable',[]),
 "notes": src.get('notes','')
}
json.dump(m,open('/verif/MANIFEST.json','w'),indent=1)
print("checks:",[c['id'] for c in src['checks']], "hooks:", hook_commits)
