#!/bin/bash
# Runs the must-fail corpus (/verif/selftest/corpus.tsv): each one-line change is applied to a
# scratch worktree of /repo HEAD, the named property's quick check is run against it (govc -repo /
# -verif on scratch copies), and the run FAILS unless a VIOLATION line names the expected obligation.
# Entries whose sed expression does not change the file are reported as stale. Nothing under /repo
# or /verif is modified.
export GOFLAGS=-mod=mod GOPROXY=off GOSUMDB=off GOTOOLCHAIN=local
wt=/tmp/stwt.$$; vd=/tmp/stvd.$$; rc=0
git -C /repo worktree add -q --detach $wt HEAD || exit 2
mkdir -p $vd/evidence $vd/replays; cp -r /verif/spec /verif/ledger /verif/known_findings.json /verif/MANIFEST.json $vd/
while IFS=$'\t' read -r id file expr prop want; do
  case "$id" in \#*|"") continue;; esac
  [ -n "$1" ] && [[ "$id" != *"$1"* ]] && continue
  cp $wt/v3/$file /tmp/st.bak.$$
  sed -i "$expr" $wt/v3/$file
  if cmp -s $wt/v3/$file /tmp/st.bak.$$; then echo "STALE  $id: the expression no longer changes $file"; rc=1; continue; fi
  if ! (cd $wt/v3 && go build ./... >/dev/null 2>&1); then echo "STALE  $id: does not compile"; cp /tmp/st.bak.$$ $wt/v3/$file; rc=1; continue; fi
  out=$(/verif/bin/govc check -prop $prop -tier quick -repo $wt/v3 -verif $vd 2>&1)
  if [ "$want" = "-" ]; then hit=$(echo "$out" | grep -c "^VIOLATION"); else hit=$(echo "$out" | grep "^VIOLATION" | grep -c -- "$want"); fi
  if [ "$hit" -gt 0 ]; then echo "caught $id ($prop, $hit violation lines)"; else echo "MISSED $id ($prop): $(echo "$out" | tail -1)"; rc=1; fi
  cp /tmp/st.bak.$$ $wt/v3/$file
done < /verif/selftest/corpus.tsv
# must-pass corpus: harmless edits; any VIOLATION line is a false alarm of the machinery
while IFS=$'\t' read -r id file expr prop; do
  case "$id" in \#*|"") continue;; esac
  [ -n "$1" ] && [[ "$id" != *"$1"* ]] && continue
  cp $wt/v3/$file /tmp/st.bak.$$
  sed -i "$expr" $wt/v3/$file
  if cmp -s $wt/v3/$file /tmp/st.bak.$$; then echo "STALE  $id: the expression no longer changes $file"; rc=1; continue; fi
  if ! (cd $wt/v3 && go build ./... >/dev/null 2>&1); then echo "STALE  $id: does not compile"; cp /tmp/st.bak.$$ $wt/v3/$file; rc=1; continue; fi
  out=$(/verif/bin/govc check -prop $prop -tier quick -repo $wt/v3 -verif $vd 2>&1)
  hit=$(echo "$out" | grep -c "^VIOLATION")
  if [ "$hit" -eq 0 ]; then echo "quiet  $id ($prop)"; else echo "ALARM  $id ($prop): $(echo "$out" | grep -m1 "^VIOLATION" | cut -c1-200)"; rc=1; fi
  cp /tmp/st.bak.$$ $wt/v3/$file
done < /verif/selftest/harmless.tsv
git -C /repo worktree remove --force $wt; rm -rf $vd /tmp/st.bak.$$
exit $rc
