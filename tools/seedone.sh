#!/bin/bash
# usage: seedone.sh <seed> <prop> [extra govc args]  - one quick check against one seed in a scratch worktree, full output
export GOFLAGS=-mod=mod GOPROXY=off GOSUMDB=off GOTOOLCHAIN=local
id=$1; p=$2; shift 2
wt=/tmp/s1wt_$id; vd=/tmp/s1vd_$id
rm -rf $wt $vd; git -C /repo worktree prune; git -C /repo worktree add -q --detach $wt HEAD || exit 2
(cd $wt && git apply /verif/seeded/$id/patch.diff) || echo "patch does not apply"
mkdir -p $vd/evidence $vd/replays; cp -r /verif/spec /verif/ledger /verif/known_findings.json /verif/MANIFEST.json $vd/
/verif/bin/govc check -prop $p -tier quick -repo $wt/v3 -verif $vd "$@"; echo "exit=$?"
if [ -n "$KEEP" ]; then echo "kept $wt $vd"; else git -C /repo worktree remove --force $wt; rm -rf $vd; fi
