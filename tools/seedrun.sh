#!/bin/bash
# usage: seedrun.sh <seed-id> [prop ...]
# Applies /verif/seeded/<id>/patch.diff to /repo, runs the quick checks of the given properties
# (default: all registered), prints one line per property, undoes the change.
id=$1; shift
props="$@"
[ -z "$props" ] && props=$(python3 -c "import json; print(' '.join(c['property_id'] for c in json.load(open('/verif/MANIFEST.json'))['checks']))")
cd /verif
git -C /repo apply /verif/seeded/$id/patch.diff || { echo "patch does not apply"; exit 2; }
before=$(ls /verif/replays | sort)
for p in $props; do
  out=$(/verif/check.sh $p quick 2>&1); code=$?
  nv=$(echo "$out" | grep -c "^VIOLATION")
  conc=$(echo "$out" | grep "^VIOLATION" | grep -vc "no-failing-input-found")
  echo "seed=$id prop=$p exit=$code violations=$nv concrete=$conc | $(echo "$out" | grep "^VIOLATION" | head -2 | cut -c1-220 | tr '\n' ' ')"
done
git -C /repo apply -R /verif/seeded/$id/patch.diff 2>/dev/null || git -C /repo checkout -- .
# remove replay files produced by the seeded run
for f in $(ls /verif/replays | sort); do
  echo "$before" | grep -qx "$f" || rm -f /verif/replays/$f
done
git -C /verif checkout -- evidence replays 2>/dev/null
