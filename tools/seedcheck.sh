#!/bin/bash
# usage: seedcheck.sh <seed-dir> <demo-relpath-under-v3> <go test args...>
# Confirms a seeded change in a scratch worktree: compiles, passes the existing suite,
# demo fails with the change and passes without it. Prints a summary; removes the worktree.
export GOFLAGS=-mod=mod GOPROXY=off GOSUMDB=off GOTOOLCHAIN=local
seed=$1; demo=$2; shift 2
wt=$(mktemp -d /tmp/seedwt.XXXX); rmdir $wt
git -C /repo worktree add -q --detach $wt HEAD || exit 2
res=""
cd $wt
demofile=$(ls $seed/demo_test.go $seed/demo/main.go 2>/dev/null | head -1)
[ -n "$DEMOFILE" ] && demofile=$seed/$DEMOFILE
mkdir -p $(dirname v3/$demo); cp $demofile v3/$demo
(cd v3 && go test -vet=off -count=1 "$@" >/tmp/seedcheck.$$.clean 2>&1); c0=$?
git apply $seed/patch.diff || { echo "patch does not apply"; }
(cd v3 && go build ./... ) ; b=$?
(cd v3 && go test -vet=off -count=1 "$@" >/tmp/seedcheck.$$.mut 2>&1); c1=$?
rm v3/$demo
(cd v3 && go test -vet=off -count=1 ./... >/tmp/seedcheck.$$.suite 2>&1); s=$?
echo "seed=$seed build_with_change=$b demo_without_change_exit=$c0 demo_with_change_exit=$c1 suite_with_change_exit=$s"
grep -v "^ok\|no test files" /tmp/seedcheck.$$.suite | head -5
cd /; git -C /repo worktree remove --force $wt; rm -f /tmp/seedcheck.$$.*
