#!/bin/bash
# usage: mut.sh <file-under-/repo/v3> <sed-expr> <prop> [only-filter]
# Applies a one-line mutation to the real tree, runs `govc verify`, restores the file.
f=/repo/v3/$1
cp $f /tmp/mut.bak.$$
sed -i "$2" $f
if cmp -s $f /tmp/mut.bak.$$; then echo "MUTATION DID NOT CHANGE THE FILE"; fi
(cd /repo/v3 && GOFLAGS=-mod=mod GOPROXY=off GOSUMDB=off GOTOOLCHAIN=local go build ./... 2>&1 | head -3)
/verif/bin/govc verify -prop $3 ${4:+-only "$4"} 2>&1 | grep -v "^WARNING" | tail -${5:-6}
cp /tmp/mut.bak.$$ $f; rm -f /tmp/mut.bak.$$
