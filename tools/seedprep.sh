#!/bin/bash
# usage: seedprep.sh <seed-id>
# Scratch worktree of /repo HEAD for an independent seeding sub-agent: /tmp/seedwt_<id>, with the
# comment-only contract files removed and hidden from git status/diff (skip-worktree), so the
# agent sees nothing that comes from the verification work. Output dir /tmp/seed/<id>.
id=$1; wt=/tmp/seedwt_$id
rm -rf $wt; git -C /repo worktree prune
git -C /repo worktree add -q --detach $wt HEAD || exit 2
cd $wt
for f in $(git ls-files | grep zz_verif_contracts.go); do git update-index --skip-worktree $f; rm -f $f; done
mkdir -p /tmp/seed/$id
echo $wt
