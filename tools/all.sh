#!/bin/bash
# Runs every registered quick check; prints one line per property; exit 1 if any alarms.
cd /verif
rc=0
for p in $(python3 -c "import json; print(' '.join(c['property_id'] for c in json.load(open('/verif/MANIFEST.json'))['checks']))"); do
  out=$(/verif/check.sh $p quick 2>&1); code=$?
  echo "$p exit=$code $(echo "$out" | tail -1)"
  if [ $code -ne 0 ]; then rc=1; echo "$out" | grep -m3 "VIOLATION\|ERROR"; fi
done
exit $rc
