#!/bin/bash
# usage: seedmatrix.sh [seed ...]     (default: every directory under /verif/seeded)
# For each seeded change: a scratch worktree of /repo HEAD with the patch applied, a scratch copy of
# the verification inputs (spec, ledger, known findings), every registered quick check run against
# it with govc's -repo/-verif flags; prints "seed prop exit violations concrete". Three seeds run
# at a time; worktrees and scratch copies are removed afterwards. /repo and /verif are not touched.
export GOFLAGS=-mod=mod GOPROXY=off GOSUMDB=off GOTOOLCHAIN=local
seeds="$@"; [ -z "$seeds" ] && seeds=$(ls /verif/seeded)
props=$(python3 -c "import json; print(' '.join(c['property_id'] for c in json.load(open('/verif/MANIFEST.json'))['checks']))")
out=/tmp/seedmatrix.$$; mkdir -p $out
run_seed() {
  id=$1; wt=/tmp/smwt_$id; vd=/tmp/smvd_$id
  rm -rf $wt $vd; git -C /repo worktree add -q --detach $wt HEAD || return
  (cd $wt && git apply /verif/seeded/$id/patch.diff) || { echo "$id patch-does-not-apply" > $out/$id.txt; git -C /repo worktree remove --force $wt; return; }
  mkdir -p $vd/evidence $vd/replays; cp -r /verif/spec /verif/ledger /verif/known_findings.json /verif/MANIFEST.json $vd/
  : > $out/$id.txt
  for p in $props; do
    o=$(/verif/bin/govc check -prop $p -tier quick -repo $wt/v3 -verif $vd 2>&1); code=$?
    nv=$(echo "$o" | grep -c "^VIOLATION"); nc=$(echo "$o" | grep "^VIOLATION" | grep -vc "no-failing-input-found")
    echo "$id $p exit=$code violations=$nv concrete=$nc" >> $out/$id.txt
  done
  git -C /repo worktree remove --force $wt; rm -rf $vd
}
n=0
for id in $seeds; do
  run_seed $id &
  n=$((n+1)); if [ $((n % 3)) -eq 0 ]; then wait; fi
done
wait
cat $out/*.txt | grep -v "exit=0"
echo "--- seeds with no alarm at all:"
for f in $out/*.txt; do grep -q "exit=1" $f || basename $f .txt; done
rm -rf $out
