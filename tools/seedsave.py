#!/usr/bin/env python3
# usage: seedsave.py <id> <demo-relpath> <run-cmd> <needs...>   (after seedcheck confirmed it)
import sys, json, shutil, os
sid, demo, run = sys.argv[1], sys.argv[2], sys.argv[3]
needs = " ".join(sys.argv[4:])
src = f"/tmp/seed/{sid}"; dst = f"/verif/seeded/{sid}"
os.makedirs(dst, exist_ok=True)
for f in os.listdir(src):
    if os.path.isfile(os.path.join(src, f)):
        shutil.copy(os.path.join(src, f), dst)
meta = {"property": sid[:3], "breaks": sid[:3], "needs_to_manifest": needs,
        "demo_path_under_v3": demo, "demo_cmd": run,
        "confirmed": "tools/seedcheck.sh in a scratch worktree of /repo HEAD: go build ok with change; demo passes without change, fails with change; full suite (go test -vet=off -count=1 ./...) passes with change",
        "source": "independent sub-agent given only the property text"}
json.dump(meta, open(os.path.join(dst, "meta.json"), "w"), indent=1)
print("saved", dst)
