#!/bin/bash
# usage: check.sh <property> <quick|thorough>
# Rebuilds nothing from /repo ahead of time: govc loads /repo/v3's current working tree
# (go/packages + go/ssa, -tags verif) on every run.
export GOFLAGS=-mod=mod GOPROXY=off GOSUMDB=off GOTOOLCHAIN=local
cd /verif
if [ ! -x /verif/bin/govc ] || [ -n "$(find /verif/govc -name '*.go' -newer /verif/bin/govc -not -path '*/vendor/*' | head -1)" ]; then
  (cd /verif/govc && GOFLAGS=-mod=vendor go build -o /verif/bin/govc .) || { echo "govc build failed"; exit 2; }
fi
exec /verif/bin/govc check -prop "$1" -tier "${2:-quick}"
