#!/bin/bash
# usage: check.sh <property> <quick|thorough>
# Rebuilds nothing from /repo ahead of time: govc loads /repo/v3's current working tree
# (go/packages + go/ssa, -tags verif) on every run.
# thorough: 60 s per obligation, all three solvers must answer and the two families agree; then the
# must-fail corpus entries of this property (one-line mutants in a scratch worktree) must each be
# reported by the check - a mutant that goes unnoticed is an error of the machinery (exit 2), not a
# property violation.
export GOFLAGS=-mod=mod GOPROXY=off GOSUMDB=off GOTOOLCHAIN=local
cd /verif
if [ ! -x /verif/bin/govc ] || [ -n "$(find /verif/govc -name '*.go' -newer /verif/bin/govc -not -path '*/vendor/*' | head -1)" ]; then
  (cd /verif/govc && GOFLAGS=-mod=vendor go build -o /verif/bin/govc .) || { echo "govc build failed"; exit 2; }
fi
if [ "${2:-quick}" != "thorough" ]; then
  exec /verif/bin/govc check -prop "$1" -tier "${2:-quick}"
fi
/verif/bin/govc check -prop "$1" -tier thorough; rc=$?
[ $rc -ne 0 ] && exit $rc
pfx=$(echo "$1" | tr 'A-Z' 'a-z')-
st=$(/verif/tools/selftest.sh "$pfx" 2>&1 | grep -v "^WARNING"); src=$?
echo "$st" | sed 's/^/selftest: /'
if echo "$st" | grep -q "^MISSED\|^STALE"; then echo "ERROR property=$1 the must-fail corpus was not fully noticed (machinery error, not a violation)"; exit 2; fi
exit 0
